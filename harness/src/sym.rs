//! Symbolic-value layer.  Under `cfg(kani)` every function is `kani::any()` /
//! `kani::assume`; natively the values are popped from a queue filled by the
//! replay binary from the solver's assignment (Kani's concrete-playback
//! output), so that the *same* harness body runs against the real build.
//! Only fixed-width scalars are drawn, one queue entry per call, in program
//! order; harness bodies draw every symbolic value themselves (environment
//! models never call `any`), which keeps the order identical in both modes.

#[cfg(not(kani))]
pub mod native {
    use std::cell::RefCell;
    use std::collections::VecDeque;
    thread_local! {
        pub static QUEUE: RefCell<VecDeque<Vec<u8>>> = RefCell::new(VecDeque::new());
        pub static EXHAUSTED: RefCell<bool> = RefCell::new(false);
        /// random-validation mode only: `below(n)` folds its draw into range instead of assuming
        pub static LENIENT: RefCell<bool> = RefCell::new(false);
        /// the values actually used by the body, in draw order (a folded draw is recorded folded),
        /// so that an assignment found in random mode can be replayed in strict mode
        pub static USED: RefCell<Vec<Vec<u8>>> = RefCell::new(Vec::new());
    }
    /// replace the record of the last draw by its folded value (`width` bytes, little endian)
    pub fn patch_last(v: u64, width: usize) {
        USED.with(|u| {
            if let Some(last) = u.borrow_mut().last_mut() {
                *last = v.to_le_bytes()[..width].to_vec();
            }
        });
    }
    pub fn used() -> Vec<Vec<u8>> {
        USED.with(|u| u.borrow().clone())
    }
    pub struct AssumeViolated;
    pub fn load(vals: Vec<Vec<u8>>) {
        QUEUE.with(|q| *q.borrow_mut() = vals.into_iter().collect());
        EXHAUSTED.with(|e| *e.borrow_mut() = false);
        USED.with(|u| u.borrow_mut().clear());
    }
    pub fn pop(n: usize) -> u64 {
        let v = QUEUE.with(|q| q.borrow_mut().pop_front());
        match v {
            Some(bytes) => {
                let mut x = 0u64;
                for (i, b) in bytes.iter().take(n.min(8)).enumerate() {
                    x |= (*b as u64) << (8 * i);
                }
                USED.with(|u| u.borrow_mut().push(x.to_le_bytes()[..n.min(8)].to_vec()));
                x
            }
            None => {
                EXHAUSTED.with(|e| *e.borrow_mut() = true);
                0
            }
        }
    }
    pub fn exhausted() -> bool {
        EXHAUSTED.with(|e| *e.borrow())
    }
    pub fn leftover() -> usize {
        QUEUE.with(|q| q.borrow().len())
    }
}

#[inline(always)]
pub fn any_u8() -> u8 {
    #[cfg(kani)]
    {
        kani::any()
    }
    #[cfg(not(kani))]
    {
        native::pop(1) as u8
    }
}
#[inline(always)]
pub fn any_bool() -> bool {
    #[cfg(kani)]
    {
        kani::any()
    }
    #[cfg(not(kani))]
    {
        native::pop(1) & 1 == 1
    }
}
#[inline(always)]
pub fn any_u16() -> u16 {
    #[cfg(kani)]
    {
        kani::any()
    }
    #[cfg(not(kani))]
    {
        native::pop(2) as u16
    }
}
#[inline(always)]
pub fn any_u32() -> u32 {
    #[cfg(kani)]
    {
        kani::any()
    }
    #[cfg(not(kani))]
    {
        native::pop(4) as u32
    }
}
#[inline(always)]
pub fn any_u64() -> u64 {
    #[cfg(kani)]
    {
        kani::any()
    }
    #[cfg(not(kani))]
    {
        native::pop(8)
    }
}
#[inline(always)]
pub fn any_i64() -> i64 {
    any_u64() as i64
}
#[inline(always)]
pub fn any_usize() -> usize {
    any_u64() as usize
}

/// `any_u8` constrained to `0..n`.
#[inline(always)]
pub fn below(n: u8) -> u8 {
    let v = any_u8();
    #[cfg(not(kani))]
    let v = if native::LENIENT.with(|l| *l.borrow()) {
        native::patch_last((v % n) as u64, 1);
        v % n
    } else {
        v
    };
    assume(v < n);
    v
}

/// `any_u32` constrained to `0..n`.
#[inline(always)]
pub fn below_u32(n: u32) -> u32 {
    let v = any_u32();
    #[cfg(not(kani))]
    let v = if native::LENIENT.with(|l| *l.borrow()) {
        native::patch_last((v % n) as u64, 4);
        v % n
    } else {
        v
    };
    assume(v < n);
    v
}

/// `any_u64` constrained to `0..n`.
#[inline(always)]
pub fn below_u64(n: u64) -> u64 {
    let v = any_u64();
    #[cfg(not(kani))]
    let v = if native::LENIENT.with(|l| *l.borrow()) {
        native::patch_last(v % n, 8);
        v % n
    } else {
        v
    };
    assume(v < n);
    v
}

#[inline(always)]
pub fn assume(c: bool) {
    #[cfg(kani)]
    {
        kani::assume(c)
    }
    #[cfg(not(kani))]
    {
        if !c {
            std::panic::panic_any(native::AssumeViolated);
        }
    }
}

/// A path that must be outside the harness' claim (e.g. an uninstalled
/// trait implementation): unreachable for the solver, loud natively.
#[inline(always)]
pub fn cut() -> ! {
    #[cfg(kani)]
    {
        kani::assume(false);
        loop {}
    }
    #[cfg(not(kani))]
    {
        std::panic::panic_any(native::AssumeViolated)
    }
}

#[macro_export]
macro_rules! cover {
    ($c:expr, $msg:literal) => {
        #[cfg(kani)]
        kani::cover!($c, $msg);
        #[cfg(not(kani))]
        {
            let _ = $c;
        }
    };
}

/// Declares harnesses: each becomes a `#[kani::proof]` under Kani and an entry
/// of the module's replay table natively.  An optional leading
/// `common { #[cfg_attr(kani, kani::stub(..))] .. }` block is applied to every harness.
#[macro_export]
macro_rules! harnesses {
    (common { $($c:tt)* } $($rest:tt)*) => {
        $crate::harnesses!(@munch [$($c)*] [] $($rest)*);
    };
    (@munch [$($c:tt)*] [$($names:ident)*] $(#[$m:meta])* fn $name:ident() $body:block $($rest:tt)*) => {
        #[cfg_attr(kani, kani::proof)]
        $($c)*
        $(#[cfg_attr(kani, $m)])*
        pub fn $name() $body
        $crate::harnesses!(@munch [$($c)*] [$($names)* $name] $($rest)*);
    };
    (@munch [$($c:tt)*] [$($names:ident)*]) => {
        pub const TABLE: &[(&str, fn())] = &[ $( (stringify!($names), $names as fn()) ),* ];
    };
    ($( $(#[$m:meta])* fn $name:ident() $body:block )*) => {
        $(
            #[cfg_attr(kani, kani::proof)]
            $(#[cfg_attr(kani, $m)])*
            pub fn $name() $body
        )*
        pub const TABLE: &[(&str, fn())] = &[ $( (stringify!($name), $name as fn()) ),* ];
    };
}
