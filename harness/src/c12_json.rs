//! C12: JSON encoder - one record, one line, and the fields round-trip exactly.
//! Unit under check: the real `JsonEncoder::encode_inner`, derived `Serialize for Message`,
//! `ser_display`, `Mdc::serialize`, serde_json's compact serializer and chrono's RFC 3339
//! formatting, executed for real.  E5 (zone model: UTC), E7 (constant thread name / id),
//! E9 (`log_mdc::iter` answers with the harness' pair).
//!
//! Oracle: the exact line is rebuilt by a reference serializer written from RFC 8259
//! (minimal escaping: `"`, `\`, the short forms \b \f \n \r \t, `\u00XX` for the other
//! control characters); equality with it implies "parses back to the same strings", "one
//! line", "no raw control character", "absent fields omitted".
use crate::c10_width::{Sink, OUTCAP};
use crate::sym;
use chrono::{Local, TimeZone, Utc};
use log::{Level, Record};
use log4rs::encode::json::JsonEncoder;

static mut MDC_PRESENT: bool = false;
const MDC_KEY: &str = "k\"";
const MDC_VAL: &str = "v\n";

#[cfg(kani)]
pub fn stub_mdc_iter<F: FnMut(&str, &str)>(mut f: F) {
    if unsafe { MDC_PRESENT } {
        f(MDC_KEY, MDC_VAL);
    }
}

/// one symbolic unit of text from the alphabet {" \ LF 0x01 a é}
fn any_unit(dst: &mut [u8]) -> usize {
    match sym::below(6) {
        0 => {
            dst[0] = b'"';
            1
        }
        1 => {
            dst[0] = b'\\';
            1
        }
        2 => {
            dst[0] = b'\n';
            1
        }
        3 => {
            dst[0] = 0x01;
            1
        }
        4 => {
            dst[0] = b'a';
            1
        }
        _ => {
            dst[0] = 0xC3;
            dst[1] = 0xA9;
            2
        }
    }
}

struct Out {
    buf: [u8; 256],
    n: usize,
}
impl Out {
    fn raw(&mut self, s: &[u8]) {
        for &b in s {
            if self.n < 256 {
                self.buf[self.n] = b;
            }
            self.n += 1;
        }
    }
    /// RFC 8259 string with minimal escaping
    fn string(&mut self, s: &[u8]) {
        self.raw(b"\"");
        for &b in s {
            match b {
                b'"' => self.raw(b"\\\""),
                b'\\' => self.raw(b"\\\\"),
                0x08 => self.raw(b"\\b"),
                0x0c => self.raw(b"\\f"),
                b'\n' => self.raw(b"\\n"),
                b'\r' => self.raw(b"\\r"),
                b'\t' => self.raw(b"\\t"),
                0..=0x1f => {
                    const HEX: &[u8; 16] = b"0123456789abcdef";
                    self.raw(b"\\u00");
                    self.raw(&[HEX[(b >> 4) as usize], HEX[(b & 15) as usize]]);
                }
                _ => self.raw(&[b]),
            }
        }
        self.raw(b"\"");
    }
}

pub struct BigSink {
    pub buf: [u8; 256],
    pub len: usize,
}
impl std::io::Write for BigSink {
    fn write(&mut self, b: &[u8]) -> std::io::Result<usize> {
        for &x in b {
            if self.len < 256 {
                self.buf[self.len] = x;
            }
            self.len += 1;
        }
        Ok(b.len())
    }
    // no phantom `Err(WriteZero)` from the default `write_all` (see c09_pattern::Rec)
    fn write_all(&mut self, b: &[u8]) -> std::io::Result<()> {
        for &x in b {
            if self.len < 256 {
                self.buf[self.len] = x;
            }
            self.len += 1;
        }
        Ok(())
    }
    fn flush(&mut self) -> std::io::Result<()> {
        Ok(())
    }
}
impl log4rs::encode::Write for BigSink {}

fn level_name(l: Level) -> &'static [u8] {
    match l {
        Level::Error => b"ERROR",
        Level::Warn => b"WARN",
        Level::Info => b"INFO",
        Level::Debug => b"DEBUG",
        Level::Trace => b"TRACE",
    }
}

pub fn body(msg_units: usize, witness: bool) {
    crate::c16_time::install(crate::c16_time::UTC0, 1704067200, 0);
    let mut msg = [0u8; 8];
    let mut ml = 0;
    for _ in 0..msg_units {
        ml += any_unit(&mut msg[ml..]);
    }
    let mut tgt = [0u8; 4];
    let tl = any_unit(&mut tgt);
    let has_module = sym::any_bool();
    let has_file = sym::any_bool();
    let has_line = sym::any_bool();
    let level = crate::util::any_level();
    unsafe {
        MDC_PRESENT = sym::any_bool();
    }
    #[cfg(not(kani))]
    {
        log_mdc::clear();
        if unsafe { MDC_PRESENT } {
            log_mdc::insert(MDC_KEY, MDC_VAL);
        }
    }
    let msg_s = unsafe { std::str::from_utf8_unchecked(&msg[..ml]) };
    let tgt_s = unsafe { std::str::from_utf8_unchecked(&tgt[..tl]) };
    let time = Utc.timestamp_opt(1704067200, 0).unwrap().with_timezone(&Local);
    let mut sink = BigSink { buf: [0; 256], len: 0 };
    let res = JsonEncoder::new().verif_encode_inner(
        &mut sink,
        time,
        &Record::builder()
            .level(level)
            .target(tgt_s)
            .module_path(if has_module { Some("m\\p") } else { None })
            .file(if has_file { Some("f\t") } else { None })
            .line(if has_line { Some(42) } else { None })
            .args(format_args!("{}", msg_s))
            .build(),
    );
    assert!(res.is_ok());

    // ---- reference line ----
    let mut o = Out { buf: [0; 256], n: 0 };
    o.raw(b"{\"time\":\"2024-01-01T00:00:00+00:00\",\"level\":\"");
    o.raw(level_name(level));
    o.raw(b"\",\"message\":");
    o.string(&msg[..ml]);
    if has_module {
        o.raw(b",\"module_path\":");
        o.string(b"m\\p");
    }
    if has_file {
        o.raw(b",\"file\":");
        o.string(b"f\t");
    }
    if has_line {
        o.raw(b",\"line\":42");
    }
    o.raw(b",\"target\":");
    o.string(&tgt[..tl]);
    o.raw(b",\"thread\":\"main\",\"thread_id\":7,\"mdc\":{");
    if unsafe { MDC_PRESENT } {
        o.string(MDC_KEY.as_bytes());
        o.raw(b":");
        o.string(MDC_VAL.as_bytes());
    }
    o.raw(b"}}\n");

    assert!(sink.len == o.n, "C12: exactly one JSON object and one newline (length)");
    let mut i = 0;
    while i < 256 {
        if i < o.n {
            assert!(sink.buf[i] == o.buf[i], "C12: the line equals the RFC 8259 rendering of the record's fields");
        }
        i += 1;
    }
    cover!(has_module && !has_line, "optional fields partly present");
    if witness {
        assert!(false, "WITNESS");
    }
}

/// Constant-size instance (DESIGN.md 9.8, rule 23): message of `mlen` bytes whose CONTENT is
/// symbolic over the one-byte alphabet {" \ LF 0x01 a}; level, target, optional fields and MDC are
/// instance constants (level Info, target "t", no module / file / line, no MDC entry).
pub fn body_sized(mlen: usize, witness: bool) {
    crate::c16_time::install(crate::c16_time::UTC0, 1704067200, 0);
    const AL: [u8; 5] = [b'"', b'\\', b'\n', 0x01, b'a'];
    let mut msg = [0u8; 4];
    for i in 0..mlen {
        msg[i] = AL[sym::below(5) as usize];
    }
    unsafe {
        MDC_PRESENT = false;
    }
    #[cfg(not(kani))]
    log_mdc::clear();
    let msg_s = unsafe { std::str::from_utf8_unchecked(&msg[..mlen]) };
    let time = Utc.timestamp_opt(1704067200, 0).unwrap().with_timezone(&Local);
    let mut sink = BigSink { buf: [0; 256], len: 0 };
    let res = JsonEncoder::new().verif_encode_inner(
        &mut sink,
        time,
        &Record::builder().level(Level::Info).target("t").args(format_args!("{}", msg_s)).build(),
    );
    assert!(res.is_ok());
    let mut o = Out { buf: [0; 256], n: 0 };
    o.raw(b"{\"time\":\"2024-01-01T00:00:00+00:00\",\"level\":\"INFO\",\"message\":");
    o.string(&msg[..mlen]);
    o.raw(b",\"target\":\"t\",\"thread\":\"main\",\"thread_id\":7,\"mdc\":{}}\n");
    assert!(sink.len == o.n, "C12: exactly one JSON object and one newline (length)");
    let mut i = 0;
    while i < 256 {
        if i < o.n {
            assert!(sink.buf[i] == o.buf[i], "C12: the line equals the RFC 8259 rendering of the record's fields");
        }
        i += 1;
    }
    if witness {
        assert!(false, "WITNESS");
    }
}

harnesses! {
    common {
        #[cfg_attr(kani, kani::stub(<chrono::Local as chrono::TimeZone>::offset_from_utc_datetime, crate::c16_time::stub_offset_from_utc))]
        #[cfg_attr(kani, kani::stub(<chrono::Local as chrono::TimeZone>::offset_from_local_datetime, crate::c16_time::stub_offset_from_local))]
        #[cfg_attr(kani, kani::stub(log_mdc::iter, crate::c12_json::stub_mdc_iter))]
        #[cfg_attr(kani, kani::stub(std::backtrace::Backtrace::capture, crate::util::stub_backtrace_capture))]
        #[cfg_attr(kani, kani::stub(<anyhow::Error as std::ops::Drop>::drop, crate::util::stub_anyhow_drop))]
        #[cfg_attr(kani, kani::stub(<anyhow::Error as std::convert::From<std::io::Error>>::from, crate::util::stub_anyhow_from_cut))]
    }
    #[kani::unwind(12)]
    fn json_sized1() { body_sized(1, false) }
    #[kani::unwind(12)]
    fn json_sized2() { body_sized(2, false) }
    #[kani::unwind(12)]
    fn json_1unit() { body(1, false) }
    #[kani::unwind(12)]
    fn json_1unit_witness() { body(1, true) }
    #[kani::unwind(12)]
    fn json_2units() { body(2, false) }
}
