//! Shared helpers: symbolic log levels, cheap errors, stubs that cut
//! formatting / backtrace machinery out of the goto program.
use crate::sym;
use log::{Level, LevelFilter};

pub fn any_level_filter() -> LevelFilter {
    match sym::below(6) {
        0 => LevelFilter::Off,
        1 => LevelFilter::Error,
        2 => LevelFilter::Warn,
        3 => LevelFilter::Info,
        4 => LevelFilter::Debug,
        _ => LevelFilter::Trace,
    }
}

pub fn any_level() -> Level {
    match sym::below(5) {
        0 => Level::Error,
        1 => Level::Warn,
        2 => Level::Info,
        3 => Level::Debug,
        _ => Level::Trace,
    }
}

/// Reference numbering, independent of `log`'s `Ord` impls: Off=0, Error=1 .. Trace=5.
pub fn filter_rank(l: LevelFilter) -> u8 {
    match l {
        LevelFilter::Off => 0,
        LevelFilter::Error => 1,
        LevelFilter::Warn => 2,
        LevelFilter::Info => 3,
        LevelFilter::Debug => 4,
        LevelFilter::Trace => 5,
    }
}

pub fn level_rank(l: Level) -> u8 {
    match l {
        Level::Error => 1,
        Level::Warn => 2,
        Level::Info => 3,
        Level::Debug => 4,
        Level::Trace => 5,
    }
}

/// Error value used by failing harness appenders; carries who failed.
#[derive(Debug)]
pub struct TagErr(pub u8);
impl std::fmt::Display for TagErr {
    fn fmt(&self, _f: &mut std::fmt::Formatter<'_>) -> std::fmt::Result {
        Ok(())
    }
}
impl std::error::Error for TagErr {}

// ---- stubs (applied with #[kani::stub]) --------------------------------------------------

/// E9: `std::backtrace::Backtrace::capture` -> disabled backtrace (no env lookup, no unwinding).
pub fn stub_backtrace_capture() -> std::backtrace::Backtrace {
    std::backtrace::Backtrace::disabled()
}

/// E9: dropping an `anyhow::Error` is cut (the value leaks): its drop goes through a
/// function-pointer vtable that fans out to every error type's drop/format glue.
pub fn stub_anyhow_drop(_e: &mut anyhow::Error) {}

/// E9 (fault-free harnesses only): converting an error into `anyhow::Error` is outside the
/// harness' claim - the path is cut.  Keeps anyhow's error objects (and with them the drop
/// glue of `Backtrace`) out of the goto program.
pub fn stub_anyhow_from_cut<E>(_e: E) -> anyhow::Error {
    crate::sym::cut()
}


/// E9 / rule 3: the appender builders name `PatternEncoder::default()` as the fallback encoder,
/// which makes the whole pattern engine a candidate of every `dyn Encode` call.  Harnesses that
/// install their own encoder cut it.
pub fn stub_pattern_encode_cut(
    _e: &log4rs::encode::pattern::PatternEncoder,
    _w: &mut dyn log4rs::encode::Write,
    _r: &log::Record,
) -> anyhow::Result<()> {
    crate::sym::cut()
}
pub fn stub_pattern_new_cut(_p: &str) -> log4rs::encode::pattern::PatternEncoder {
    crate::sym::cut()
}

/// Unicode classification of non-ASCII scalars (`char::is_alphabetic` / `is_alphanumeric` fall
/// back to table searches - a binary search plus a run-length walk - which the symbolic executor
/// explores for every character it cannot prove to be ASCII).  For harnesses whose texts are
/// ASCII the fallback is unreachable; that is asserted, then the path ends.
#[cfg(kani)]
pub fn stub_unicode_lookup_cut(_c: char) -> bool {
    // checked, not assumed: if a non-ASCII scalar could reach the classification the run fails
    assert!(false, "harness texts are ASCII: the Unicode table fallback is unreachable");
    crate::sym::cut()
}
