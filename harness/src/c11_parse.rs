//! C11 (parser half): the pattern parser is total - any string is turned into pieces without a
//! panic (no overflow, no out-of-range or mid-character slice), every piece consumes at least one
//! byte, and plain text stays one error-free piece.
//! Unit under check: the real `Parser` (`next`, `argument`, `formatter`, `name`, `args`, `arg`,
//! `parameters`, `integer`, `text`, `consume`) run to exhaustion by the door-opener
//! `verif_parse_all`; the pieces are leaked, `From<Piece> for Chunk` is not part of this unit.
use crate::sym;
use log4rs::encode::pattern::verif_parse_all;

const ALPHABET: [u8; 12] = [b'{', b'}', b'(', b')', b'\\', b':', b'<', b'.', b'5', b'm', b'd', b' '];

/// `prefix` (fixed bytes, may hold a multi-byte scalar) + `free` symbolic bytes over the alphabet.
pub fn body(prefix: &[u8], free: usize, witness: bool) {
    let mut b = [0u8; 12];
    let mut n = 0;
    for &x in prefix {
        b[n] = x;
        n += 1;
    }
    let mut special = false;
    for _ in 0..free {
        let c = ALPHABET[sym::below(ALPHABET.len() as u8) as usize];
        if c == b'{' || c == b'}' || c == b'(' || c == b')' || c == b'\\' {
            special = true;
        }
        b[n] = c;
        n += 1;
    }
    let text = unsafe { std::str::from_utf8_unchecked(&b[..n]) };
    let (pieces, errors) = verif_parse_all(text);
    assert!(pieces >= 1 && pieces <= n, "C11: the parser makes progress: between 1 and len pieces");
    assert!(errors <= pieces);
    if !special && prefix.iter().all(|&x| x != b'{' && x != b'}' && x != b'(' && x != b')' && x != b'\\') {
        assert!(pieces == 1 && errors == 0, "C11: text without a syntax character is a single literal piece");
    }
    cover!(errors > 0, "a malformed pattern");
    cover!(errors == 0 && special, "a well-formed pattern with syntax characters");
    if witness {
        assert!(false, "WITNESS");
    }
}

/// Classification of non-ASCII scalars (`char::is_alphabetic` / `is_alphanumeric` fall back to
/// Unicode table searches for them).  The only non-ASCII scalar of these instances is U+00E9.
#[cfg(kani)]
pub fn stub_alphabetic(c: char) -> bool {
    sym::assume(c == '\u{e9}');
    true
}
#[cfg(kani)]
pub fn stub_numeric(c: char) -> bool {
    sym::assume(c == '\u{e9}');
    false
}

harnesses! {
    common {
        #[cfg_attr(kani, kani::stub(std::backtrace::Backtrace::capture, crate::util::stub_backtrace_capture))]
        #[cfg_attr(kani, kani::stub(core::unicode::unicode_data::alphabetic::lookup, crate::c11_parse::stub_alphabetic))]
        #[cfg_attr(kani, kani::stub(core::unicode::unicode_data::n::lookup, crate::c11_parse::stub_numeric))]
    }
    #[kani::unwind(8)]
    fn parse_free3() { body(&[], 3, false) }
    #[kani::unwind(8)]
    fn parse_free3_witness() { body(&[], 3, true) }
    #[kani::unwind(8)]
    fn parse_free4() { body(&[], 4, false) }
    #[kani::unwind(8)]
    fn parse_brace_free3() { body(b"{", 3, false) }
    #[kani::unwind(8)]
    fn parse_arg_free3() { body(b"{d(", 3, false) }
    #[kani::unwind(8)]
    fn parse_multibyte_free3() { body(&[b'{', b'm', b':', 0xC3, 0xA9], 3, false) }
    #[kani::unwind(10)]
    fn parse_free5() { body(&[], 5, false) }
}
