//! C01 / C02 (R1): the logger tree.  Unit under check: the real
//! `ConfiguredLogger::{add, find, enabled, max_log_level}` through the `Tree`
//! door-opener, driven exactly as `SharedLogger::new_with_err_handler` drives
//! it (declared loggers added in order of name length).
//!
//! Instance parameters (enumerated, concrete): the declared names with their
//! additive flag and number of own attachments, and the list of targets.
//! Solver variables: every level (root, each logger, the record) and every
//! attached appender id.
//!
//! Oracle: reference evaluator on hand-written *component lists* - it shares no
//! string code with the implementation.
use crate::sym;
use crate::util::*;
use log::{Level, LevelFilter};
use log4rs::verif_hooks::Tree;

pub const NAPP: usize = 3;
pub const MAXD: usize = 3;
pub const MAXATT: usize = 2;

pub struct Decl {
    pub name: &'static str,
    /// the name split into components by "::" (written by hand per instance)
    pub comps: &'static [&'static str],
    pub additive: bool,
    pub natt: usize,
}

pub struct Target {
    pub text: &'static str,
    pub comps: &'static [&'static str],
}

fn str_eq(a: &str, b: &str) -> bool {
    let (a, b) = (a.as_bytes(), b.as_bytes());
    if a.len() != b.len() {
        return false;
    }
    let mut i = 0;
    while i < a.len() {
        if a[i] != b[i] {
            return false;
        }
        i += 1;
    }
    true
}

/// is `p` a component-wise prefix of `t`?
fn is_prefix(p: &[&str], t: &[&str]) -> bool {
    if p.len() > t.len() {
        return false;
    }
    let mut i = 0;
    while i < p.len() {
        if !str_eq(p[i], t[i]) {
            return false;
        }
        i += 1;
    }
    true
}

/// Index of the declared logger with the longest component prefix of `t`, if any.
fn effective(decls: &[Decl], t: &[&str]) -> Option<usize> {
    let mut best: Option<usize> = None;
    let mut i = 0;
    while i < decls.len() {
        if is_prefix(decls[i].comps, t) {
            match best {
                Some(b) if decls[b].comps.len() >= decls[i].comps.len() => {}
                _ => best = Some(i),
            }
        }
        i += 1;
    }
    best
}

/// Nearest declared strict ancestor of declared logger `d`.
fn parent(decls: &[Decl], d: usize) -> Option<usize> {
    let mut best: Option<usize> = None;
    let mut i = 0;
    while i < decls.len() {
        if i != d
            && decls[i].comps.len() < decls[d].comps.len()
            && is_prefix(decls[i].comps, decls[d].comps)
        {
            match best {
                Some(b) if decls[b].comps.len() >= decls[i].comps.len() => {}
                _ => best = Some(i),
            }
        }
        i += 1;
    }
    best
}

pub fn body(decls: &'static [Decl], nroot: usize, targets: &'static [Target], witness: bool) {
    body2(decls, nroot, targets, false, witness)
}

/// `with_max`: also check `max_log_level()` (C02); kept out of the routing harnesses because the
/// recursion over heap-allocated children is the expensive part for the model checker.
pub fn body2(decls: &'static [Decl], nroot: usize, targets: &'static [Target], with_max: bool, witness: bool) {
    // ---- symbolic configuration -------------------------------------------------
    let root_level = any_level_filter();
    let mut root_att = [0usize; MAXATT];
    for k in 0..nroot {
        root_att[k] = sym::below(NAPP as u8) as usize;
    }
    let mut levels = [LevelFilter::Off; MAXD];
    let mut atts = [[0usize; MAXATT]; MAXD];
    for d in 0..decls.len() {
        levels[d] = any_level_filter();
        for k in 0..decls[d].natt {
            atts[d][k] = sym::below(NAPP as u8) as usize;
        }
    }
    let rec_level = any_level();

    // ---- the real tree, built the way SharedLogger::new_with_err_handler does ----
    let mut tree = Tree::new(root_level, root_att[..nroot].to_vec());
    for d in 0..decls.len() {
        // declared loggers arrive sorted by name length (instances are written that way)
        if d > 0 {
            assert!(decls[d - 1].name.len() <= decls[d].name.len());
        }
        tree.add(
            decls[d].name,
            atts[d][..decls[d].natt].to_vec(),
            decls[d].additive,
            levels[d],
        );
    }

    // ---- reference ---------------------------------------------------------------
    // C02: reported maximum = most verbose level among root and all declared loggers
    let mut exp_max = filter_rank(root_level);
    for d in 0..decls.len() {
        if filter_rank(levels[d]) > exp_max {
            exp_max = filter_rank(levels[d]);
        }
    }
    if with_max {
        assert!(filter_rank(tree.max_log_level()) == exp_max, "C02: max_log_level is the most verbose configured level");
    }

    let mut saw_inherit = false;
    let mut ti = 0;
    while ti < targets.len() {
        let t = &targets[ti];
        let eff = effective(decls, t.comps);
        let exp_level = match eff {
            Some(d) => levels[d],
            None => root_level,
        };
        // expected multiset of attachments: own + inherited along the unbroken additive chain
        let mut exp_hits = [0u8; NAPP];
        let mut cur = eff;
        let mut chain_reaches_root = true;
        let mut steps = 0;
        while let Some(d) = cur {
            for k in 0..decls[d].natt {
                exp_hits[atts[d][k]] += 1;
            }
            if !decls[d].additive {
                chain_reaches_root = false;
                break;
            }
            cur = parent(decls, d);
            steps += 1;
            if steps > MAXD {
                break;
            }
        }
        if chain_reaches_root {
            for k in 0..nroot {
                exp_hits[root_att[k]] += 1;
            }
        }

        // ---- the implementation's answer ------------------------------------------
        assert!(
            filter_rank(tree.find_level(t.text)) == filter_rank(exp_level),
            "C01: effective logger = longest component-wise prefix, else root"
        );
        let got = tree.find_appenders(t.text);
        let mut got_hits = [0u8; NAPP];
        let mut gi = 0;
        while gi < got.len() {
            assert!(got[gi] < NAPP);
            got_hits[got[gi]] += 1;
            gi += 1;
        }
        for a in 0..NAPP {
            assert!(got_hits[a] == exp_hits[a], "C01: one delivery per attachment along the additive chain, nothing else");
        }
        // C02: enabled() agrees with the effective threshold
        let exp_enabled = level_rank(rec_level) <= filter_rank(exp_level);
        assert!(tree.find_enabled(t.text, rec_level) == exp_enabled, "C02: enabled() == record passes its effective logger's threshold");
        if let Some(d) = eff {
            if decls[d].additive && decls[d].natt > 0 && (nroot > 0 || parent(decls, d).is_some()) {
                saw_inherit = true;
            }
        }
        ti += 1;
    }
    cover!(exp_max > filter_rank(root_level), "a declared logger is more verbose than the root");
    if witness {
        assert!(false, "WITNESS");
    }
    std::mem::forget(tree);
}

macro_rules! decl {
    ($name:literal, [$($c:literal),*], $add:literal, $natt:literal) => {
        Decl { name: $name, comps: &[$($c),*], additive: $add, natt: $natt }
    };
}
macro_rules! tgt {
    ($name:literal, [$($c:literal),*]) => {
        Target { text: $name, comps: &[$($c),*] }
    };
}

// ---- target pools (text, components by "::") ------------------------------------------
pub const T_CHAIN: &[Target] = &[
    tgt!("a", ["a"]),
    tgt!("a::b", ["a", "b"]),
    tgt!("a::b::c", ["a", "b", "c"]),
    tgt!("a::b::c::x", ["a", "b", "c", "x"]),
    tgt!("a::x", ["a", "x"]),
    tgt!("a::bx", ["a", "bx"]),
    tgt!("ax", ["ax"]),
    tgt!("x::a", ["x", "a"]),
    tgt!("", [""]),
    tgt!(":", [":"]),
    tgt!("::", ["", ""]),
    tgt!("a:", ["a:"]),
    tgt!("a::", ["a", ""]),
    tgt!("a:::b", ["a", ":b"]),
    tgt!("a::b:", ["a", "b:"]),
    tgt!("::a", ["", "a"]),
];

pub const T_SMALL: &[Target] = &[
    tgt!("a", ["a"]),
    tgt!("a::b", ["a", "b"]),
    tgt!("a::bc", ["a", "bc"]),
    tgt!("a::b::c", ["a", "b", "c"]),
    tgt!("x", ["x"]),
    tgt!("", [""]),
    tgt!("a:", ["a:"]),
    tgt!("a:::b", ["a", ":b"]),
    tgt!("x::a", ["x", "a"]),
    tgt!("a::x::b", ["a", "x", "b"]),
];

// ---- instances ---------------------------------------------------------------------------
const D_A: &[Decl] = &[decl!("a", ["a"], true, 1)];
const D_A_NA: &[Decl] = &[decl!("a", ["a"], false, 1)];
const D_AB: &[Decl] = &[decl!("a::b", ["a", "b"], true, 1)];
const D_AB_NA: &[Decl] = &[decl!("a::b", ["a", "b"], false, 1)];
const D_A_AB: &[Decl] = &[decl!("a", ["a"], true, 1), decl!("a::b", ["a", "b"], true, 1)];
const D_A_AB_NA: &[Decl] = &[decl!("a", ["a"], true, 1), decl!("a::b", ["a", "b"], false, 1)];
const D_ANA_AB: &[Decl] = &[decl!("a", ["a"], false, 1), decl!("a::b", ["a", "b"], true, 1)];
const D_SIB: &[Decl] = &[decl!("a::b", ["a", "b"], true, 1), decl!("a::bc", ["a", "bc"], false, 1)];
const D_A_ABC: &[Decl] = &[decl!("a", ["a"], true, 1), decl!("a::b::c", ["a", "b", "c"], true, 1)];
const D_ANA_ABC: &[Decl] = &[decl!("a", ["a"], false, 1), decl!("a::b::c", ["a", "b", "c"], true, 0)];
const D_LEAD: &[Decl] = &[decl!("::a", ["", "a"], true, 1)];
const D_A_BA: &[Decl] = &[decl!("a", ["a"], true, 1), decl!("b::a", ["b", "a"], true, 1)];
const D_3CHAIN: &[Decl] = &[
    decl!("a", ["a"], true, 1),
    decl!("a::b", ["a", "b"], true, 1),
    decl!("a::b::c", ["a", "b", "c"], true, 1),
];
const D_3CHAIN_MID_NA: &[Decl] = &[
    decl!("a", ["a"], true, 1),
    decl!("a::b", ["a", "b"], false, 1),
    decl!("a::b::c", ["a", "b", "c"], true, 1),
];
const D_3SIB: &[Decl] = &[
    decl!("a::b", ["a", "b"], true, 1),
    decl!("a::bc", ["a", "bc"], true, 0),
    decl!("a::b::c", ["a", "b", "c"], false, 2),
];

harnesses! {
    #[kani::unwind(9)]
    fn tree_a() { body(D_A, 1, T_SMALL, false) }
    #[kani::unwind(9)]
    fn tree_a_witness() { body(D_A, 1, T_SMALL, true) }
    #[kani::unwind(9)]
    fn tree_a_na() { body(D_A_NA, 1, T_SMALL, false) }
    #[kani::unwind(9)]
    fn tree_ab() { body(D_AB, 1, T_SMALL, false) }
    #[kani::unwind(9)]
    fn tree_ab_na() { body(D_AB_NA, 2, T_SMALL, false) }
    #[kani::unwind(9)]
    fn tree_a_ab() { body(D_A_AB, 1, T_SMALL, false) }
    #[kani::unwind(9)]
    fn tree_a_ab_na() { body(D_A_AB_NA, 1, T_SMALL, false) }
    #[kani::unwind(9)]
    fn tree_ana_ab() { body(D_ANA_AB, 1, T_SMALL, false) }
    #[kani::unwind(9)]
    fn tree_sib() { body(D_SIB, 1, T_SMALL, false) }
    #[kani::unwind(9)]
    fn tree_a_abc() { body(D_A_ABC, 1, T_SMALL, false) }
    #[kani::unwind(9)]
    fn tree_ana_abc() { body(D_ANA_ABC, 1, T_SMALL, false) }
    #[kani::unwind(9)]
    fn tree_lead() { body(D_LEAD, 1, T_CHAIN, false) }
    #[kani::unwind(9)]
    fn tree_a_ba() { body(D_A_BA, 0, T_CHAIN, false) }
    #[kani::unwind(11)]
    fn tree_a_chain_targets() { body(D_A, 1, T_CHAIN, false) }
    #[kani::unwind(11)]
    fn tree_3chain() { body(D_3CHAIN, 1, T_CHAIN, false) }
    #[kani::unwind(11)]
    fn tree_3chain_mid_na() { body(D_3CHAIN_MID_NA, 1, T_CHAIN, false) }
    #[kani::unwind(11)]
    fn tree_3sib() { body(D_3SIB, 1, T_CHAIN, false) }

    // ---- C02: max_log_level (recursion bounded per instance through --unwindset) ----
    #[kani::unwind(6)]
    fn max_a() { body2(D_A, 1, &[], true, false) }
    #[kani::unwind(6)]
    fn max_a_witness() { body2(D_A, 1, &[], true, true) }
    #[kani::unwind(6)]
    fn max_ab() { body2(D_AB, 1, &[], true, false) }
    #[kani::unwind(6)]
    fn max_a_ab() { body2(D_A_AB, 1, &[], true, false) }
    #[kani::unwind(6)]
    fn max_a_ba() { body2(D_A_BA, 1, &[], true, false) }
    #[kani::unwind(8)]
    fn max_sib() { body2(D_SIB, 1, &[], true, false) }
    #[kani::unwind(8)]
    fn max_3chain() { body2(D_3CHAIN, 1, &[], true, false) }
}
