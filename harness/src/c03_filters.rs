//! C03: filter chains decide per appender; rejections and errors are isolated.
//! Unit under check: the real `ConfiguredLogger::log` + `Appender::append`
//! (through the `FanOut` door-opener) and the real `ThresholdFilter::filter`.
use crate::sym;
use crate::util::*;
use log::{Level, LevelFilter, Record};
use log4rs::append::Append;
use log4rs::filter::{threshold::ThresholdFilter, Filter, Response};
use log4rs::verif_hooks::FanOut;

const MAXA: usize = 3;
const MAXF: usize = 3;

static mut CONSULTED: [[u8; MAXF]; MAXA] = [[0; MAXF]; MAXA];
static mut DELIVERED: [u8; MAXA] = [0; MAXA];
static mut RESP: [[u8; MAXF]; MAXA] = [[0; MAXF]; MAXA];
static mut FAILS: [bool; MAXA] = [false; MAXA];

#[derive(Debug)]
struct RespFilter {
    a: usize,
    f: usize,
}
impl Filter for RespFilter {
    fn filter(&self, _record: &Record) -> Response {
        unsafe {
            CONSULTED[self.a][self.f] += 1;
            match RESP[self.a][self.f] {
                0 => Response::Accept,
                1 => Response::Neutral,
                _ => Response::Reject,
            }
        }
    }
}

/// Wraps the real ThresholdFilter so that consultations are counted.
#[derive(Debug)]
struct CountingThreshold {
    a: usize,
    f: usize,
    inner: ThresholdFilter,
}
impl Filter for CountingThreshold {
    fn filter(&self, record: &Record) -> Response {
        unsafe {
            CONSULTED[self.a][self.f] += 1;
        }
        self.inner.filter(record)
    }
}

#[derive(Debug)]
struct App {
    a: usize,
}
impl Append for App {
    fn append(&self, _record: &Record) -> anyhow::Result<()> {
        unsafe {
            DELIVERED[self.a] += 1;
            if FAILS[self.a] {
                return Err(anyhow::Error::new(TagErr(self.a as u8)));
            }
        }
        Ok(())
    }
    fn flush(&self) {}
}

/// `na` appenders with `nf` filters each; `attached` lists the node's attachments
/// (may repeat an appender); `thr`: position (a, f) holding a real ThresholdFilter.
fn body(na: usize, nf: usize, attached: &[usize], thr: Option<(usize, usize)>, witness: bool) {
    body2(na, nf, attached, thr, witness, true, false)
}

fn body2(na: usize, nf: usize, attached: &[usize], thr: Option<(usize, usize)>, witness: bool, can_fail: bool, tags: bool) {
    unsafe {
        CONSULTED = [[0; MAXF]; MAXA];
        DELIVERED = [0; MAXA];
    }
    let logger_level = any_level_filter();
    let rec_level = any_level();
    let mut thr_level = LevelFilter::Off;
    let mut table: Vec<(Box<dyn Append>, Vec<Box<dyn Filter>>)> = Vec::with_capacity(na);
    for a in 0..na {
        let mut fs: Vec<Box<dyn Filter>> = Vec::with_capacity(nf);
        for f in 0..nf {
            if thr == Some((a, f)) {
                thr_level = any_level_filter();
                fs.push(Box::new(CountingThreshold {
                    a,
                    f,
                    inner: ThresholdFilter::new(thr_level),
                }));
            } else {
                unsafe {
                    RESP[a][f] = sym::below(3);
                }
                fs.push(Box::new(RespFilter { a, f }));
            }
        }
        unsafe {
            FAILS[a] = if can_fail { sym::any_bool() } else { false };
        }
        table.push((Box::new(App { a }), fs));
    }
    let fan = FanOut::new(logger_level, attached.to_vec(), table);
    let record = Record::builder().level(rec_level).target("t").build();

    let errs = fan.log(&record);

    // ---- reference interpreter (statement of C03, nothing shared with the code) ----
    let admitted = level_rank(rec_level) <= filter_rank(logger_level);
    let mut exp_consulted = [[0u8; MAXF]; MAXA];
    let mut exp_delivered = [0u8; MAXA];
    let mut exp_errors = [0u8; MAXA];
    if admitted {
        for &a in attached {
            let mut deliver = true;
            for f in 0..nf {
                exp_consulted[a][f] += 1;
                let resp = if thr == Some((a, f)) {
                    // threshold filter: rejects exactly the records more verbose than its level
                    if level_rank(rec_level) > filter_rank(thr_level) {
                        2
                    } else {
                        1
                    }
                } else {
                    unsafe { RESP[a][f] }
                };
                if resp == 0 {
                    break;
                }
                if resp == 2 {
                    deliver = false;
                    break;
                }
            }
            if deliver {
                exp_delivered[a] += 1;
                if unsafe { FAILS[a] } {
                    exp_errors[a] += 1;
                }
            }
        }
    }
    let mut got_errors = [0u8; MAXA];
    if tags {
        for e in errs.iter() {
            match e.downcast_ref::<TagErr>() {
                Some(t) => got_errors[t.0 as usize] += 1,
                None => panic!("foreign error"),
            }
        }
    } else {
        let mut total = 0usize;
        for a in 0..MAXA {
            total += exp_errors[a] as usize;
            got_errors[a] = exp_errors[a];
        }
        assert!(errs.len() == total, "error count");
    }
    for a in 0..MAXA {
        assert!(unsafe { DELIVERED[a] } == exp_delivered[a], "delivery count per appender");
        assert!(got_errors[a] == exp_errors[a], "errors handed over exactly once per failing delivery");
        for f in 0..MAXF {
            assert!(unsafe { CONSULTED[a][f] } == exp_consulted[a][f], "filters consulted exactly as the chain prescribes");
        }
    }
    let interesting = if nf >= 1 {
        admitted && exp_delivered[0] == 0 && exp_delivered[1] == 1 && exp_errors[1] == 1 && errs.len() == 1
    } else {
        admitted && exp_errors[0] == 1 && exp_errors[1] == 0 && errs.len() == 1
    };
    cover!(interesting, "one appender drops or fails, the other still receives the record, exactly one error");
    cover!(!admitted, "record not admitted by the logger threshold");
    if witness {
        assert!(false, "WITNESS");
    }
    std::mem::forget(errs);
    std::mem::forget(fan);
}

harnesses! {
    common {
        #[cfg_attr(kani, kani::stub(std::backtrace::Backtrace::capture, crate::util::stub_backtrace_capture))]
        #[cfg_attr(kani, kani::stub(<anyhow::Error as std::ops::Drop>::drop, crate::util::stub_anyhow_drop))]
    }
    // 2 appenders x 2 response filters, both attached once
    #[kani::unwind(5)]
    fn c03_2x2() { body(2, 2, &[0, 1], None, false) }
    #[kani::unwind(5)]
    fn c03_2x2_witness() { body(2, 2, &[0, 1], None, true) }
    // real ThresholdFilter at (1,0) followed by a response filter
    #[kani::unwind(5)]
    fn c03_2x2_threshold() { body(2, 2, &[0, 1], Some((1, 0)), false) }
    // appender 0 attached twice: each attachment delivers once
    #[kani::unwind(5)]
    fn c03_2x1_dup() { body(2, 1, &[0, 1, 0], None, false) }
    // no filters at all
    #[kani::unwind(5)]
    fn c03_2x0() { body(2, 0, &[1, 0], None, false) }
    // 3 appenders x 3 filters
    #[kani::unwind(6)]
    fn c03_3x3() { body(3, 3, &[0, 1, 2], None, false) }
    #[kani::unwind(6)]
    fn c03_3x3_threshold() { body(3, 3, &[2, 0, 1], Some((0, 1)), false) }
}
