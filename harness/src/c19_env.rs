//! C19: `$ENV{NAME}` expansion.  Unit under check: the real
//! `append::env_util::expand_env_vars` (door-opener `verif_expand_env_vars`).
//! The path text and the variables' values are instance parameters (free text did not
//! finish, DESIGN.md section 2); which variables are set is the solver's choice.
use crate::sym;
use crate::world::env;
use log4rs::append::verif_expand_env_vars;

pub struct Var {
    pub name: &'static str,
    pub value: &'static str,
}

fn is_start(b: u8) -> bool {
    b.is_ascii_alphanumeric() || b == b'_' || b >= 0x80
}
fn is_part(b: u8) -> bool {
    is_start(b) || b == b'.'
}

/// Reference scanner: one pass over the original text; a reference is `$ENV{` + a name made
/// of letters, digits, '_' (and '.' after the first character; non-ASCII scalars count as
/// letters, which holds for the pool) + `}`.  The scan itself does not depend on which
/// variables are set: it yields pieces (start, end, variable index or NOVAR).
const NOVAR: usize = usize::MAX;
fn pieces(text: &[u8], vars: &[Var], out: &mut [(usize, usize, usize); 16]) -> usize {
    let mut n = 0;
    let mut i = 0;
    let mut lit_start = 0;
    while i < text.len() {
        let mut advanced = false;
        if text.len() - i >= 5 && &text[i..i + 5] == b"$ENV{" {
            let s = i + 5;
            if s < text.len() && is_start(text[s]) {
                let mut e = s + 1;
                while e < text.len() && is_part(text[e]) {
                    e += 1;
                }
                if e < text.len() && text[e] == b'}' {
                    let name = &text[s..e];
                    let mut v = 0;
                    while v < vars.len() {
                        if vars[v].name.as_bytes() == name {
                            if lit_start < i {
                                out[n] = (lit_start, i, NOVAR);
                                n += 1;
                            }
                            out[n] = (i, e + 1, v);
                            n += 1;
                            i = e + 1;
                            lit_start = i;
                            advanced = true;
                        }
                        v += 1;
                    }
                }
            }
        }
        if !advanced {
            i += 1;
        }
    }
    if lit_start < text.len() {
        out[n] = (lit_start, text.len(), NOVAR);
        n += 1;
    }
    n
}

pub fn body(text: &'static str, vars: &'static [Var], witness: bool) {
    env::reset();
    let mut set = [false; 4];
    for v in 0..vars.len() {
        set[v] = sym::any_bool();
        env::set(vars[v].name, if set[v] { Some(vars[v].value) } else { None });
    }
    let got = verif_expand_env_vars(text);
    let g = got.as_bytes();
    let t = text.as_bytes();
    let mut ps = [(0usize, 0usize, 0usize); 16];
    let np = pieces(t, vars, &mut ps);
    // walk the pieces and the produced text side by side
    let mut pos = 0usize;
    let mut changed = false;
    let mut k = 0;
    while k < np {
        let (s, e, v) = ps[k];
        if v != NOVAR && set[v] {
            let val = vars[v].value.as_bytes();
            assert!(pos + val.len() <= g.len(), "C19: a set variable's value is substituted");
            let mut j = 0;
            while j < val.len() {
                assert!(g[pos + j] == val[j], "C19: a set variable's value is substituted");
                j += 1;
            }
            pos += val.len();
            changed = true;
        } else {
            assert!(pos + (e - s) <= g.len(), "C19: all other text is left byte-for-byte unchanged");
            let mut j = s;
            while j < e {
                assert!(g[pos + (j - s)] == t[j], "C19: all other text is left byte-for-byte unchanged");
                j += 1;
            }
            pos += e - s;
        }
        k += 1;
    }
    assert!(pos == g.len(), "C19: nothing is appended");
    cover!(changed || vars.is_empty(), "at least one substitution happened (or there is nothing to set)");
    if witness {
        assert!(false, "WITNESS");
    }
    std::mem::forget(got);
}

macro_rules! v {
    ($n:literal = $val:literal) => {
        Var { name: $n, value: $val }
    };
}
const A_X: &[Var] = &[v!("A" = "xy")];
const AB: &[Var] = &[v!("A" = "xy"), v!("B" = "")];
const DOTTED: &[Var] = &[v!("A.b_1" = "q")];
const UNI: &[Var] = &[v!("é" = "u")];
const TRICKY: &[Var] = &[v!("A" = "ENV{B}"), v!("B" = "z")];
const NONE: &[Var] = &[];

harnesses! {
    common {
        #[cfg_attr(kani, kani::stub(std::env::var, crate::world::env::stub_var))]
    }
    #[kani::unwind(20)]
    fn env_simple() { body("/a/$ENV{A}/b", A_X, false) }
    #[kani::unwind(20)]
    fn env_simple_witness() { body("/a/$ENV{A}/b", A_X, true) }
    #[kani::unwind(20)]
    fn env_two() { body("$ENV{A}é$ENV{B}", AB, false) }
    #[kani::unwind(20)]
    fn env_repeat() { body("$ENV{A}/$ENV{A}", A_X, false) }
    #[kani::unwind(20)]
    fn env_dotted() { body("/$ENV{A.b_1}.log", DOTTED, false) }
    #[kani::unwind(20)]
    fn env_unicode_name() { body("$ENV{é}/x", UNI, false) }
    #[kani::unwind(20)]
    fn env_unterminated() { body("/a/$ENV{A", A_X, false) }
    #[kani::unwind(20)]
    fn env_empty_name() { body("$ENV{}$ENV{A}", A_X, false) }
    #[kani::unwind(20)]
    fn env_bad_first() { body("$ENV{-A}$ENV{.A}", A_X, false) }
    #[kani::unwind(20)]
    fn env_bad_inner() { body("$ENV{A-}$ENV{A}", A_X, false) }
    #[kani::unwind(20)]
    fn env_stray() { body("$${}}$ENV${A}", A_X, false) }
    #[kani::unwind(20)]
    fn env_nested() { body("$ENV{$ENV{A}}", A_X, false) }
    #[kani::unwind(20)]
    fn env_none() { body("/plain/é.log", NONE, false) }
    #[kani::unwind(24)]
    fn env_value_mentions_other() { body("$$ENV{A}$ENV{B}", TRICKY, false) }
}
