//! C13 (builder part): strict building succeeds exactly for well-formed configurations and
//! names every offending item; lossy building keeps exactly the valid items in order.
//! Unit under check: the real `ConfigBuilder::{build_lossy, build}` (with `check_logger_name`)
//! over E1 (`VecSet` standing in for the two `HashSet<String>`).
use crate::sym;
use log::{LevelFilter, Record};
use log4rs::append::Append;
use log4rs::config::runtime::ConfigError;
use log4rs::config::{Appender, Config, Logger as LoggerCfg, Root};

#[derive(Debug)]
struct Nop;
impl Append for Nop {
    fn append(&self, _r: &Record) -> anyhow::Result<()> {
        Ok(())
    }
    fn flush(&self) {}
}

const APP_POOL: [&str; 2] = ["A", "B"];
const REF_POOL: [&str; 3] = ["A", "B", "Z"];
/// (name, well-formed)
const LOG_POOL: [(&str, bool); 5] = [("a", true), ("a::b", true), ("b", true), ("a:", false), ("", false)];

fn same(a: &str, b: &str) -> bool {
    let (a, b) = (a.as_bytes(), b.as_bytes());
    if a.len() != b.len() {
        return false;
    }
    let mut i = 0;
    while i < a.len() {
        if a[i] != b[i] {
            return false;
        }
        i += 1;
    }
    true
}

/// expected error kinds: 0 dup appender, 1 nonexistent appender, 2 dup logger, 3 invalid logger
#[derive(Clone, Copy, PartialEq)]
struct Exp {
    kind: u8,
    text: &'static str,
}

fn kind_of(e: &ConfigError) -> (u8, &str) {
    match e {
        ConfigError::DuplicateAppenderName(s) => (0, s.as_str()),
        ConfigError::NonexistentAppender(s) => (1, s.as_str()),
        ConfigError::DuplicateLoggerName(s) => (2, s.as_str()),
        ConfigError::InvalidLoggerName(s) => (3, s.as_str()),
        _ => (9, ""),
    }
}

/// `napp` appenders, `nlog` loggers with one reference each, one root reference.
/// `free`: which single item is the solver's choice (0 = an appender name, 1 = a logger name,
/// 2 = a logger's reference, 3 = the root's reference); every other item is fixed by the instance
/// (`fixed` = [appender name indices.., logger name indices.., reference indices.., root]).
pub fn body(napp: usize, nlog: usize, strict: bool, free: u8, fixed: [usize; 10], witness: bool) {
    let mut app_idx = [0usize; 3];
    let mut log_idx = [0usize; 3];
    let mut log_ref = [0usize; 3];
    let root_ref = if free == 3 { sym::below(3) as usize } else { fixed[9] };
    let mut b = Config::builder();
    for i in 0..napp {
        app_idx[i] = if free == 0 && i == napp - 1 { sym::below(2) as usize } else { fixed[i] };
        b = b.appender(Appender::builder().build(APP_POOL[app_idx[i]], Box::new(Nop)));
    }
    for i in 0..nlog {
        log_idx[i] = if free == 1 && i == nlog - 1 { sym::below(5) as usize } else { fixed[3 + i] };
        log_ref[i] = if free == 2 && i == nlog - 1 { sym::below(3) as usize } else { fixed[6 + i] };
        b = b.logger(LoggerCfg::builder().appender(REF_POOL[log_ref[i]]).build(LOG_POOL[log_idx[i]].0, LevelFilter::Info));
    }
    let root = Root::builder().appender(REF_POOL[root_ref]).build(LevelFilter::Warn);

    // ---- reference ------------------------------------------------------------------------
    let mut exp: [Exp; 8] = [Exp { kind: 9, text: "" }; 8];
    let mut ne = 0;
    let mut have = [false; 2]; // appender names present
    let mut kept_app = [false; 3];
    for i in 0..napp {
        if have[app_idx[i]] {
            exp[ne] = Exp { kind: 0, text: APP_POOL[app_idx[i]] };
            ne += 1;
        } else {
            have[app_idx[i]] = true;
            kept_app[i] = true;
        }
    }
    let exists = |r: usize| r < 2 && have[r];
    let root_ok = exists(root_ref);
    if !root_ok {
        exp[ne] = Exp { kind: 1, text: REF_POOL[root_ref] };
        ne += 1;
    }
    let mut seen = [false; 5];
    let mut kept_log = [false; 3];
    let mut kept_ref = [false; 3];
    for i in 0..nlog {
        let li = log_idx[i];
        if seen[li] {
            exp[ne] = Exp { kind: 2, text: LOG_POOL[li].0 };
            ne += 1;
            continue;
        }
        seen[li] = true;
        if !LOG_POOL[li].1 {
            exp[ne] = Exp { kind: 3, text: LOG_POOL[li].0 };
            ne += 1;
            continue;
        }
        kept_log[i] = true;
        if exists(log_ref[i]) {
            kept_ref[i] = true;
        } else {
            exp[ne] = Exp { kind: 1, text: REF_POOL[log_ref[i]] };
            ne += 1;
        }
    }

    if strict {
        match b.build(root) {
            Ok(cfg) => {
                assert!(ne == 0, "C13: strict building succeeds only for well-formed configurations");
                std::mem::forget(cfg);
            }
            Err(errs) => {
                assert!(ne > 0, "C13: strict building fails only when an item is offending");
                check_errors(errs.errors(), &exp, ne);
                std::mem::forget(errs);
            }
        }
    } else {
        let (cfg, errs) = b.build_lossy(root);
        check_errors(errs.errors(), &exp, ne);
        // appenders: first occurrences, original order
        let mut k = 0;
        for i in 0..napp {
            if kept_app[i] {
                assert!(k < cfg.appenders().len() && same(cfg.appenders()[k].name(), APP_POOL[app_idx[i]]), "C13: lossy keeps the valid appenders in order");
                k += 1;
            }
        }
        assert!(cfg.appenders().len() == k, "C13: lossy keeps exactly the valid appenders");
        assert!(cfg.root().appenders().len() == if root_ok { 1 } else { 0 }, "C13: dangling root references are stripped");
        let mut k = 0;
        for i in 0..nlog {
            if kept_log[i] {
                assert!(k < cfg.loggers().len(), "C13: lossy keeps the valid loggers");
                let l = &cfg.loggers()[k];
                assert!(same(l.name(), LOG_POOL[log_idx[i]].0), "C13: lossy keeps the valid loggers in order");
                assert!(l.appenders().len() == if kept_ref[i] { 1 } else { 0 }, "C13: dangling logger references are stripped");
                k += 1;
            }
        }
        assert!(cfg.loggers().len() == k, "C13: lossy keeps exactly the valid loggers");
        std::mem::forget(cfg);
        std::mem::forget(errs);
    }
    cover!(true, "reached the end");
    if witness {
        assert!(false, "WITNESS");
    }
}

/// every expected offending item is named, and no error names an innocent item (same multiset,
/// same order as the builder reports them)
fn check_errors(got: &[ConfigError], exp: &[Exp; 8], ne: usize) {
    assert!(got.len() == ne, "C13: every offending item is reported, and nothing else");
    let mut i = 0;
    while i < 8 {
        if i < ne && i < got.len() {
            let (k, t) = kind_of(&got[i]);
            assert!(k == exp[i].kind && same(t, exp[i].text), "C13: the error names the offending item");
        }
        i += 1;
    }
}

// fixed = [app0, app1, app2, log0, log1, log2, ref0, ref1, ref2, root]
const F_VALID: [usize; 10] = [0, 1, 0, 0, 1, 2, 0, 1, 0, 0];
const F_DUPS: [usize; 10] = [0, 0, 1, 0, 0, 3, 2, 1, 2, 2];

harnesses! {
    #[kani::unwind(8)]
    fn lossy_free_appender() { body(2, 2, false, 0, F_VALID, false) }
    #[kani::unwind(8)]
    fn lossy_free_appender_witness() { body(2, 2, false, 0, F_VALID, true) }
    #[kani::unwind(8)]
    fn lossy_free_logger() { body(2, 2, false, 1, F_VALID, false) }
    #[kani::unwind(8)]
    fn lossy_free_ref() { body(2, 2, false, 2, F_VALID, false) }
    #[kani::unwind(8)]
    fn lossy_free_root() { body(2, 2, false, 3, F_VALID, false) }
    #[kani::unwind(8)]
    fn strict_free_logger() { body(2, 2, true, 1, F_VALID, false) }
    #[kani::unwind(8)]
    fn strict_free_appender() { body(2, 2, true, 0, F_VALID, false) }
    #[kani::unwind(8)]
    fn lossy_dups_free_logger() { body(3, 3, false, 1, F_DUPS, false) }
    #[kani::unwind(8)]
    fn lossy_dups_free_appender() { body(3, 3, false, 0, F_DUPS, false) }
}
