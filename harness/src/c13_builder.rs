//! C13 (builder part): strict building succeeds exactly for well-formed configurations and
//! names every offending item; lossy building keeps exactly the valid items in order.
//! Unit under check: the real `ConfigBuilder::{build_lossy, build}` (with `check_logger_name`)
//! over E1 (`VecSet` standing in for the two `HashSet<String>`).
use crate::sym;
use log::{LevelFilter, Record};
use log4rs::append::Append;
use log4rs::config::runtime::ConfigError;
use log4rs::config::{Appender, Config, Logger as LoggerCfg, Root};

#[derive(Debug)]
struct Nop;
impl Append for Nop {
    fn append(&self, _r: &Record) -> anyhow::Result<()> {
        Ok(())
    }
    fn flush(&self) {}
}

const APP_POOL: [&str; 2] = ["A", "B"];
const REF_POOL: [&str; 3] = ["A", "B", "Z"];
/// (name, well-formed)
/// all names have the same length: a name whose *length* is the solver's choice makes every
/// `String` allocation and copy symbolic in size, which the SAT translation does not survive
const LOG_POOL: [(&str, bool); 5] = [("a::b", true), ("a::c", true), ("::ab", true), ("a:::", false), ("a:bc", false)];

/// the pool entry chosen by `idx`, assembled by a concrete walk over the pool (constant length,
/// symbolic content)
fn pick4(pool: &[(&'static str, bool); 5], idx: usize, out: &mut [u8; 4]) {
    let mut p = 0;
    while p < 5 {
        if p == idx {
            let b = pool[p].0.as_bytes();
            out[0] = b[0];
            out[1] = b[1];
            out[2] = b[2];
            out[3] = b[3];
        }
        p += 1;
    }
}
fn pick1(pool: &[&'static str], idx: usize, out: &mut [u8; 1]) {
    let mut p = 0;
    while p < pool.len() {
        if p == idx {
            out[0] = pool[p].as_bytes()[0];
        }
        p += 1;
    }
}

fn same(a: &str, b: &str) -> bool {
    let (a, b) = (a.as_bytes(), b.as_bytes());
    if a.len() != b.len() {
        return false;
    }
    let mut i = 0;
    while i < a.len() {
        if a[i] != b[i] {
            return false;
        }
        i += 1;
    }
    true
}

/// expected error kinds: 0 dup appender, 1 nonexistent appender, 2 dup logger, 3 invalid logger
/// `text` is identified by (pool, index) rather than by a `&str`: a string chosen by a symbolic
/// index would be a symbolic pointer, and every later byte access a case split
#[derive(Clone, Copy, PartialEq)]
struct Exp {
    kind: u8,
    /// 0 = appender names, 1 = references, 2 = logger names
    pool: u8,
    idx: usize,
}

fn text_is(got: &str, pool: u8, idx: usize) -> bool {
    match pool {
        0 => {
            let mut p = 0;
            while p < APP_POOL.len() {
                if p == idx {
                    return same(got, APP_POOL[p]);
                }
                p += 1;
            }
            false
        }
        1 => {
            let mut p = 0;
            while p < REF_POOL.len() {
                if p == idx {
                    return same(got, REF_POOL[p]);
                }
                p += 1;
            }
            false
        }
        _ => {
            let mut p = 0;
            while p < LOG_POOL.len() {
                if p == idx {
                    return same(got, LOG_POOL[p].0);
                }
                p += 1;
            }
            false
        }
    }
}

fn log_valid(idx: usize) -> bool {
    let mut p = 0;
    while p < LOG_POOL.len() {
        if p == idx {
            return LOG_POOL[p].1;
        }
        p += 1;
    }
    false
}

fn kind_of(e: &ConfigError) -> (u8, &str) {
    match e {
        ConfigError::DuplicateAppenderName(s) => (0, s.as_str()),
        ConfigError::NonexistentAppender(s) => (1, s.as_str()),
        ConfigError::DuplicateLoggerName(s) => (2, s.as_str()),
        ConfigError::InvalidLoggerName(s) => (3, s.as_str()),
        _ => (9, ""),
    }
}

/// `napp` appenders, `nlog` loggers with one reference each, one root reference.
/// `free`: which single item is the solver's choice (0 = an appender name, 1 = a logger name,
/// 2 = a logger's reference, 3 = the root's reference); every other item is fixed by the instance
/// (`fixed` = [appender name indices.., logger name indices.., reference indices.., root]).
pub fn body(napp: usize, nlog: usize, strict: bool, free: u8, fixed: [usize; 10], witness: bool) {
    let mut app_idx = [0usize; 3];
    let mut log_idx = [0usize; 3];
    let mut log_ref = [0usize; 3];
    let root_ref = if free == 3 { sym::below(3) as usize } else { fixed[9] };
    let mut b = Config::builder();
    for i in 0..napp {
        app_idx[i] = if free == 0 && i == napp - 1 { sym::below(2) as usize } else { fixed[i] };
        let mut nb = [0u8; 1];
        pick1(&APP_POOL, app_idx[i], &mut nb);
        b = b.appender(Appender::builder().build(unsafe { std::str::from_utf8_unchecked(&nb) }, Box::new(Nop)));
    }
    for i in 0..nlog {
        log_idx[i] = if free == 1 && i == nlog - 1 { sym::below(5) as usize } else { fixed[3 + i] };
        log_ref[i] = if free == 2 && i == nlog - 1 { sym::below(3) as usize } else { fixed[6 + i] };
        let mut nb = [0u8; 4];
        pick4(&LOG_POOL, log_idx[i], &mut nb);
        let mut rb = [0u8; 1];
        pick1(&REF_POOL, log_ref[i], &mut rb);
        b = b.logger(
            LoggerCfg::builder()
                .appender(unsafe { std::str::from_utf8_unchecked(&rb) })
                .build(unsafe { std::str::from_utf8_unchecked(&nb) }, LevelFilter::Info),
        );
    }
    let mut rb = [0u8; 1];
    pick1(&REF_POOL, root_ref, &mut rb);
    let root = Root::builder().appender(unsafe { std::str::from_utf8_unchecked(&rb) }).build(LevelFilter::Warn);

    // ---- reference ------------------------------------------------------------------------
    let mut exp: [Exp; 8] = [Exp { kind: 9, pool: 0, idx: 0 }; 8];
    let mut ne = 0;
    let mut have = [false; 2]; // appender names present
    let mut kept_app = [false; 3];
    for i in 0..napp {
        if have[app_idx[i]] {
            exp[ne] = Exp { kind: 0, pool: 0, idx: app_idx[i] };
            ne += 1;
        } else {
            have[app_idx[i]] = true;
            kept_app[i] = true;
        }
    }
    let exists = |r: usize| r < 2 && have[r];
    let root_ok = exists(root_ref);
    if !root_ok {
        exp[ne] = Exp { kind: 1, pool: 1, idx: root_ref };
        ne += 1;
    }
    let mut seen = [false; 5];
    let mut kept_log = [false; 3];
    let mut kept_ref = [false; 3];
    for i in 0..nlog {
        let li = log_idx[i];
        if seen[li] {
            exp[ne] = Exp { kind: 2, pool: 2, idx: li };
            ne += 1;
            continue;
        }
        seen[li] = true;
        if !log_valid(li) {
            exp[ne] = Exp { kind: 3, pool: 2, idx: li };
            ne += 1;
            continue;
        }
        kept_log[i] = true;
        if exists(log_ref[i]) {
            kept_ref[i] = true;
        } else {
            exp[ne] = Exp { kind: 1, pool: 1, idx: log_ref[i] };
            ne += 1;
        }
    }

    if strict {
        match b.build(root) {
            Ok(cfg) => {
                assert!(ne == 0, "C13: strict building succeeds only for well-formed configurations");
                std::mem::forget(cfg);
            }
            Err(errs) => {
                assert!(ne > 0, "C13: strict building fails only when an item is offending");
                check_errors(errs.errors(), &exp, ne);
                std::mem::forget(errs);
            }
        }
    } else {
        let (cfg, errs) = b.build_lossy(root);
        check_errors(errs.errors(), &exp, ne);
        // appenders: first occurrences, original order
        let mut k = 0;
        for i in 0..napp {
            if kept_app[i] {
                assert!(k < cfg.appenders().len() && text_is(cfg.appenders()[k].name(), 0, app_idx[i]), "C13: lossy keeps the valid appenders in order");
                k += 1;
            }
        }
        assert!(cfg.appenders().len() == k, "C13: lossy keeps exactly the valid appenders");
        assert!(cfg.root().appenders().len() == if root_ok { 1 } else { 0 }, "C13: dangling root references are stripped");
        let mut k = 0;
        for i in 0..nlog {
            if kept_log[i] {
                assert!(k < cfg.loggers().len(), "C13: lossy keeps the valid loggers");
                let l = &cfg.loggers()[k];
                assert!(text_is(l.name(), 2, log_idx[i]), "C13: lossy keeps the valid loggers in order");
                assert!(l.appenders().len() == if kept_ref[i] { 1 } else { 0 }, "C13: dangling logger references are stripped");
                k += 1;
            }
        }
        assert!(cfg.loggers().len() == k, "C13: lossy keeps exactly the valid loggers");
        std::mem::forget(cfg);
        std::mem::forget(errs);
    }
    cover!(true, "reached the end");
    if witness {
        assert!(false, "WITNESS");
    }
}

/// every expected offending item is named, and no error names an innocent item (same multiset,
/// same order as the builder reports them)
fn check_errors(got: &[ConfigError], exp: &[Exp; 8], ne: usize) {
    assert!(got.len() == ne, "C13: every offending item is reported, and nothing else");
    let mut i = 0;
    while i < 8 {
        if i < ne && i < got.len() {
            let (k, t) = kind_of(&got[i]);
            assert!(k == exp[i].kind && text_is(t, exp[i].pool, exp[i].idx), "C13: the error names the offending item");
        }
        i += 1;
    }
}

// fixed = [app0, app1, app2, log0, log1, log2, ref0, ref1, ref2, root]
const F_VALID: [usize; 10] = [0, 1, 0, 0, 1, 2, 0, 1, 0, 0];
/// all items free at once
const F_ANY: [usize; 10] = [0; 10];
const F_DUPS: [usize; 10] = [0, 0, 1, 0, 0, 3, 2, 1, 2, 2];

harnesses! {
    #[kani::unwind(8)]
    fn lossy_1x2_free_logger() { body(1, 2, false, 1, F_VALID, false) }
    #[kani::unwind(8)]
    fn strict_1x1_free_logger() { body(1, 1, true, 1, F_VALID, false) }
    #[kani::unwind(8)]
    fn lossy_free_appender() { body(2, 2, false, 0, F_VALID, false) }
    #[kani::unwind(8)]
    fn lossy_free_appender_witness() { body(2, 2, false, 0, F_VALID, true) }
    #[kani::unwind(8)]
    fn lossy_free_logger() { body(2, 2, false, 1, F_VALID, false) }
    #[kani::unwind(8)]
    fn lossy_free_ref() { body(2, 2, false, 2, F_VALID, false) }
    #[kani::unwind(8)]
    fn lossy_free_root() { body(2, 2, false, 3, F_VALID, false) }
    #[kani::unwind(8)]
    fn strict_free_logger() { body(2, 2, true, 1, F_VALID, false) }
    #[kani::unwind(8)]
    fn strict_free_appender() { body(2, 2, true, 0, F_VALID, false) }
    #[kani::unwind(8)]
    fn lossy_dups_free_logger() { body(3, 3, false, 1, F_DUPS, false) }
    #[kani::unwind(8)]
    fn lossy_dups_free_appender() { body(3, 3, false, 0, F_DUPS, false) }
}
