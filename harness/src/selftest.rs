//! Smoke harness: used by bin/setup to warm the per-slot build caches and by the
//! driver's self-test (a witness twin must fail, a trivially true harness must hold).
use crate::sym;

fn body(witness: bool) {
    let x = sym::any_u8();
    sym::assume(x < 200);
    let y = x as u32 + 56;
    assert!(y < 256);
    cover!(y == 255, "boundary reached");
    if witness {
        assert!(false, "WITNESS");
    }
}

harnesses! {
    fn smoke() { body(false) }
    fn smoke_witness() { body(true) }
}
