//! C18(a): console output obeys `tty_only` and the colour policy.
//! Unit under check: the `COLOR_MODE` initialiser, `imp::Writer::{stdout, stderr}`,
//! `ConsoleAppenderBuilder::build`.  E6 (environment table) and E8 (terminal detection
//! answered by the harness through the guarded `libc` stand-in).
use crate::sym;
use crate::world::env;
use log::Record;
use log4rs::append::console::{ConsoleAppender, Target};
use log4rs::encode::{Encode, Write};

#[derive(Debug)]
struct NullEncoder;
impl Encode for NullEncoder {
    fn encode(&self, _w: &mut dyn Write, _r: &Record) -> anyhow::Result<()> {
        Ok(())
    }
}

fn pick(k: u8) -> Option<&'static str> {
    match k {
        0 => None,
        1 => Some("0"),
        _ => Some("1"),
    }
}

/// `class`: 0 = everything, 1 = only the recorded finding's input class (tty_only together with
/// a colour decision that differs from terminal detection), 2 = everything except that class.
pub fn body(class: u8, witness: bool) {
    env::reset();
    let no_color = sym::below(3);
    let clicolor = sym::below(3);
    let force = sym::below(3);
    env::set("NO_COLOR", pick(no_color));
    env::set("CLICOLOR", pick(clicolor));
    env::set("CLICOLOR_FORCE", pick(force));
    let tty_out = sym::any_bool();
    let tty_err = sym::any_bool();
    unsafe {
        log4rs::verif_hooks::fake_libc::ISATTY[1] = tty_out as i32;
        log4rs::verif_hooks::fake_libc::ISATTY[2] = tty_err as i32;
    }
    let to_stderr = sym::any_bool();
    let tty_only = sym::any_bool();
    let is_tty = if to_stderr { tty_err } else { tty_out };

    // ---- reference: the statement's precedence table -------------------------------------
    // "0" for NO_COLOR / CLICOLOR_FORCE is not covered by the statement: either answer is accepted
    let colour_decided = no_color != 1 && force != 1;
    let exp_colour = if no_color == 2 {
        false
    } else if force == 2 {
        true
    } else if clicolor == 1 {
        false
    } else {
        is_tty
    };
    let exp_write = if tty_only { is_tty } else { true };
    // the recorded finding: do_write follows the colour decision instead of terminal detection
    let known_class = tty_only && exp_colour != is_tty;
    match class {
        1 => sym::assume(known_class),
        2 => sym::assume(!known_class),
        _ => {}
    }

    let appender = ConsoleAppender::builder()
        .encoder(Box::new(NullEncoder))
        .target(if to_stderr { Target::Stderr } else { Target::Stdout })
        .tty_only(tty_only)
        .build();

    if colour_decided {
        assert!(appender.verif_colour() == exp_colour, "C18: colour never under NO_COLOR, else always under CLICOLOR_FORCE, else never under CLICOLOR=0, else only on terminals");
    }
    assert!(appender.verif_do_write() == exp_write, "C18: a tty_only appender writes exactly when its target is a terminal, independent of colour settings");
    cover!(tty_only && is_tty && exp_colour, "terminal, colour on, tty_only");
    cover!(!tty_only && !is_tty, "pipe, unrestricted appender");
    if witness {
        assert!(false, "WITNESS");
    }
    std::mem::forget(appender);
}

harnesses! {
    common {
        #[cfg_attr(kani, kani::stub(std::env::var, crate::world::env::stub_var))]
        #[cfg_attr(kani, kani::stub(<log4rs::encode::pattern::PatternEncoder as log4rs::encode::Encode>::encode, crate::util::stub_pattern_encode_cut))]
        #[cfg_attr(kani, kani::stub(log4rs::encode::pattern::PatternEncoder::new, crate::util::stub_pattern_new_cut))]
    }
    #[kani::unwind(16)]
    fn console_policy() { body(2, false) }
    #[kani::unwind(16)]
    fn console_policy_witness() { body(2, true) }
    #[kani::unwind(16)]
    fn console_policy_known() { body(1, false) }
}
