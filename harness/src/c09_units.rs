//! C09 / C18(c), formatter units: the value each simple formatter writes for a record, and
//! the style calls of a highlight group.  Unit under check: the real `Chunk::encode` and
//! `FormattedChunk::encode` on a single chunk built on the stack (door-opener
//! `verif_encode_formatter`) - the list-of-chunks machinery (parser, `Vec<Chunk>`) does not fit
//! the solver (DESIGN.md 9.6) and is not decided here.
use crate::c09_pattern::Rec;
use crate::sym;
use log::{Level, Record};
use log4rs::encode::pattern::{verif_encode_formatter, verif_formatter_direct};

fn any_unit(dst: &mut [u8]) -> usize {
    match sym::below(4) {
        0 => {
            dst[0] = b'a';
            1
        }
        1 => {
            dst[0] = b'{';
            1
        }
        2 => {
            dst[0] = b'\\';
            1
        }
        _ => {
            dst[0] = 0xC3;
            dst[1] = 0xA9;
            2
        }
    }
}

fn expect(sink: &Rec, text: &[u8], styles: u8, resets: u8) {
    assert!(sink.len == text.len(), "C09: the formatter writes exactly its value (length)");
    let mut i = 0;
    while i < text.len() {
        assert!(sink.buf[i] == text[i], "C09: the formatter writes exactly its value");
        i += 1;
    }
    assert!(sink.styles == styles && sink.resets == resets, "C18: highlight emits one style before and one reset after the group for styled levels, nothing otherwise");
}

/// formatters whose value comes from the record: level, message, module, file, line, target
pub fn body_record_fields(witness: bool) {
    let mut text = [0u8; 8];
    let mut tl = 0;
    let units = sym::below(3) as usize;
    for i in 0..2 {
        if i < units {
            tl += any_unit(&mut text[tl..]);
        }
    }
    let s = unsafe { std::str::from_utf8_unchecked(&text[..tl]) };
    let level = crate::util::any_level();
    let has = sym::any_bool();
    let kind = sym::below(6);
    let mut sink = Rec { buf: [0; crate::c09_pattern::CAP], len: 0, styles: 0, resets: 0 };
    let res = verif_encode_formatter(
        &mut sink,
        &Record::builder()
            .level(level)
            .target(s)
            .module_path(if has { Some("mod") } else { None })
            .file(if has { Some("f.rs") } else { None })
            .line(if has { Some(42) } else { None })
            .args(format_args!("{}", s))
            .build(),
        kind,
    );
    assert!(res.is_ok());
    let lvl: &[u8] = match level {
        Level::Error => b"ERROR",
        Level::Warn => b"WARN",
        Level::Info => b"INFO",
        Level::Debug => b"DEBUG",
        Level::Trace => b"TRACE",
    };
    match kind {
        0 => expect(&sink, lvl, 0, 0),
        1 | 5 => expect(&sink, &text[..tl], 0, 0),
        2 => expect(&sink, if has { b"mod" } else { b"???" }, 0, 0),
        3 => expect(&sink, if has { b"f.rs" } else { b"???" }, 0, 0),
        _ => expect(&sink, if has { b"42" } else { b"???" }, 0, 0),
    }
    cover!(kind == 4 && !has, "line absent: ???");
    cover!(kind == 1 && tl >= 3, "a message with a multi-byte scalar");
    if witness {
        assert!(false, "WITNESS");
    }
}

/// formatters without record text: newline, thread, system thread id, and the groups: an empty
/// highlight group (style calls only), empty debug / release groups
pub fn body_fixed(witness: bool) {
    body_fixed_mode(false, witness)
}

pub fn body_fixed_mode(direct: bool, witness: bool) {
    let level = crate::util::any_level();
    let kind = 6 + sym::below(6);
    let mut sink = Rec { buf: [0; crate::c09_pattern::CAP], len: 0, styles: 0, resets: 0 };
    let rec = Record::builder().level(level).build();
    let res = if direct { verif_formatter_direct(&mut sink, &rec, kind) } else { verif_encode_formatter(&mut sink, &rec, kind) };
    assert!(res.is_ok());
    let styled = !matches!(level, Level::Debug);
    match kind {
        6 => expect(&sink, b"\n", 0, 0),
        7 => expect(&sink, b"main", 0, 0),
        8 => expect(&sink, b"7", 0, 0),
        9 => expect(&sink, b"", styled as u8, styled as u8),
        _ => expect(&sink, b"", 0, 0),
    }
    cover!(kind == 9 && matches!(level, Level::Trace), "highlight at Trace level");
    cover!(kind == 9 && matches!(level, Level::Debug), "highlight at Debug level: no style");
    if witness {
        assert!(false, "WITNESS");
    }
}

/// One formatter per instance (`kind` is a constant of the instance, so only its arm of
/// `FormattedChunk::encode` is executed); record text, level and presence of the optional fields
/// are symbolic.
pub fn body_one(kind: u8, witness: bool) {
    let mut text = [0u8; 8];
    let mut tl = 0;
    let units = sym::below(3) as usize;
    for i in 0..2 {
        if i < units {
            tl += any_unit(&mut text[tl..]);
        }
    }
    let s = unsafe { std::str::from_utf8_unchecked(&text[..tl]) };
    let level = crate::util::any_level();
    let has = sym::any_bool();
    let mdc = sym::any_bool();
    unsafe {
        crate::c09_pattern::MDC_SET = mdc;
    }
    // the line formatter's instance draws the line number: every value below 65536 (all of u32 did not
    // finish: 32-bit division circuits on both sides); the others keep 42
    let line_v: u32 = if kind == 4 { sym::any_u16() as u32 } else { 42 };
    #[cfg(not(kani))]
    {
        log_mdc::clear();
        if mdc {
            log_mdc::insert("k", crate::c09_pattern::MDC_VALUE);
        }
    }
    let mut sink = Rec { buf: [0; crate::c09_pattern::CAP], len: 0, styles: 0, resets: 0 };
    let res = verif_formatter_direct(
        &mut sink,
        &Record::builder()
            .level(level)
            .target(s)
            .module_path(if has { Some("mod") } else { None })
            .file(if has { Some("f.rs") } else { None })
            .line(if has { Some(line_v) } else { None })
            .args(format_args!("{}", s))
            .build(),
        kind,
    );
    assert!(res.is_ok());
    // decimal rendering of the line number (reference: repeated division, most significant digit first)
    let mut dec = [0u8; 10];
    let mut dl = 0;
    if kind == 4 {
        // (only the line formatter's instance runs these loops: the others keep the harness bound of 8)
        let mut tmp = [0u8; 10];
        let mut n = line_v;
        let mut k = 0;
        while k < 10 {
            if k == 0 || n > 0 {
                tmp[dl] = b'0' + (n % 10) as u8;
                dl += 1;
                n /= 10;
            }
            k += 1;
        }
        let mut j = 0;
        while j < 10 {
            if j < dl {
                dec[j] = tmp[dl - 1 - j];
            }
            j += 1;
        }
    }
    let lvl: &[u8] = match level {
        Level::Error => b"ERROR",
        Level::Warn => b"WARN",
        Level::Info => b"INFO",
        Level::Debug => b"DEBUG",
        Level::Trace => b"TRACE",
    };
    let styled = !matches!(level, Level::Debug);
    match kind {
        0 => expect(&sink, lvl, 0, 0),
        1 | 5 => expect(&sink, &text[..tl], 0, 0),
        2 => expect(&sink, if has { b"mod" } else { b"???" }, 0, 0),
        3 => expect(&sink, if has { b"f.rs" } else { b"???" }, 0, 0),
        4 => expect(&sink, if has { &dec[..dl] } else { b"???" }, 0, 0),
        6 => expect(&sink, b"\n", 0, 0),
        7 => expect(&sink, b"main", 0, 0),
        8 => expect(&sink, b"7", 0, 0),
        9 => expect(&sink, b"", styled as u8, styled as u8),
        12 => expect(&sink, if mdc { crate::c09_pattern::MDC_VALUE.as_bytes() } else { b"dflt" }, 0, 0),
        // the ids are stubs under the solver (7, 4242); natively they are whatever the OS says: decimal digits only
        13 | 14 if cfg!(not(kani)) => {
            assert!(sink.len > 0 && sink.buf[..sink.len].iter().all(|b| b.is_ascii_digit()), "C09: an id is written as a decimal number");
        }
        13 => expect(&sink, b"7", 0, 0),
        14 => expect(&sink, b"4242", 0, 0),
        _ => expect(&sink, b"", 0, 0),
    }
    cover!(kind != 12 || mdc, "the MDC key is set");
    cover!(kind != 12 || !mdc, "the MDC key is absent: default");
    cover!(kind != 4 || (has && line_v == 0), "line number 0");
    cover!(kind != 4 || (has && line_v > 9_999), "a five-digit line number");
    cover!(!has, "optional record fields absent");
    cover!(tl >= 3, "text with a multi-byte scalar");
    cover!(matches!(level, Level::Debug), "Debug level");
    if witness {
        assert!(false, "WITNESS");
    }
}

harnesses! {
    common {
        #[cfg_attr(kani, kani::stub(chrono::Local::now, crate::c10_width::cut_local_now))]
        #[cfg_attr(kani, kani::stub(chrono::Utc::now, crate::c10_width::cut_utc_now))]
        #[cfg_attr(kani, kani::stub(log_mdc::get, crate::c09_pattern::stub_mdc_get))]
        #[cfg_attr(kani, kani::stub(thread_id::get, crate::c09_pattern::stub_thread_id_get))]
        #[cfg_attr(kani, kani::stub(std::process::id, crate::c09_pattern::stub_process_id))]
        #[cfg_attr(kani, kani::stub(std::backtrace::Backtrace::capture, crate::util::stub_backtrace_capture))]
        #[cfg_attr(kani, kani::stub(<anyhow::Error as std::ops::Drop>::drop, crate::util::stub_anyhow_drop))]
        #[cfg_attr(kani, kani::stub(<anyhow::Error as std::convert::From<std::io::Error>>::from, crate::util::stub_anyhow_from_cut))]
    }
    #[kani::unwind(8)]
    fn unit_record_fields() { body_record_fields(false) }
    #[kani::unwind(8)]
    fn unit_record_fields_witness() { body_record_fields(true) }
    #[kani::unwind(8)]
    fn unit_fixed() { body_fixed(false) }
    #[kani::unwind(8)]
    fn unit_fixed_witness() { body_fixed(true) }
    #[kani::unwind(8)]
    fn one_level() { body_one(0, false) }
    #[kani::unwind(8)]
    fn one_level_witness() { body_one(0, true) }
    #[kani::unwind(8)]
    fn one_message() { body_one(1, false) }
    #[kani::unwind(8)]
    fn one_module() { body_one(2, false) }
    #[kani::unwind(8)]
    fn one_file() { body_one(3, false) }
    #[kani::unwind(12)]
    fn one_line() { body_one(4, false) }
    #[kani::unwind(8)]
    fn one_target() { body_one(5, false) }
    #[kani::unwind(8)]
    fn one_newline() { body_one(6, false) }
    #[kani::unwind(8)]
    fn one_thread() { body_one(7, false) }
    #[kani::unwind(8)]
    fn one_tid() { body_one(8, false) }
    #[kani::unwind(8)]
    fn one_highlight() { body_one(9, false) }
    #[kani::unwind(8)]
    fn one_highlight_witness() { body_one(9, true) }
    #[kani::unwind(8)]
    fn one_debug() { body_one(10, false) }
    #[kani::unwind(8)]
    fn one_release() { body_one(11, false) }
    #[kani::unwind(8)]
    fn one_mdc() { body_one(12, false) }
    #[kani::unwind(8)]
    fn one_thread_id() { body_one(13, false) }
    #[kani::unwind(8)]
    fn one_process_id() { body_one(14, false) }
    #[kani::unwind(8)]
    fn direct_fixed() { body_fixed_mode(true, false) }
    #[kani::unwind(8)]
    fn direct_fixed_witness() { body_fixed_mode(true, true) }
}
