//! C18(b): every style request yields one well-formed SGR sequence encoding
//! exactly the requested attributes.
use log4rs::encode::writer::ansi::AnsiWriter;
use log4rs::encode::{Color, Style, Write as EncWrite};

use crate::sym;

fn any_color() -> Option<Color> {
    let k = sym::below(9);
    match k {
        0 => None,
        1 => Some(Color::Black),
        2 => Some(Color::Red),
        3 => Some(Color::Green),
        4 => Some(Color::Yellow),
        5 => Some(Color::Blue),
        6 => Some(Color::Magenta),
        7 => Some(Color::Cyan),
        _ => Some(Color::White),
    }
}

/// Independent reference: SGR digit of a colour (ECMA-48 / xterm: 0 black .. 7 white).
fn ref_digit(c: Color) -> u8 {
    match c {
        Color::Black => 0,
        Color::Red => 1,
        Color::Green => 2,
        Color::Yellow => 3,
        Color::Blue => 4,
        Color::Magenta => 5,
        Color::Cyan => 6,
        Color::White => 7,
    }
}

fn body(witness: bool) {
    let text = any_color();
    let background = any_color();
    let ik = sym::below(3);
    let intense = match ik {
        0 => None,
        1 => Some(true),
        _ => Some(false),
    };
    let mut style = Style::new();
    if let Some(c) = text {
        style.text(c);
    }
    if let Some(c) = background {
        style.background(c);
    }
    if let Some(i) = intense {
        style.intense(i);
    }

    let mut w = AnsiWriter(Vec::<u8>::with_capacity(16));
    let r = w.set_style(&style);
    assert!(r.is_ok());
    let out = &w.0;

    // reference: ESC [ 0 (;3c)? (;4c)? (;1|;22)? m
    let mut exp = [0u8; 16];
    let mut n = 0;
    for b in [0x1b, b'[', b'0'] {
        exp[n] = b;
        n += 1;
    }
    if let Some(c) = text {
        exp[n] = b';';
        exp[n + 1] = b'3';
        exp[n + 2] = b'0' + ref_digit(c);
        n += 3;
    }
    if let Some(c) = background {
        exp[n] = b';';
        exp[n + 1] = b'4';
        exp[n + 2] = b'0' + ref_digit(c);
        n += 3;
    }
    match intense {
        Some(true) => {
            exp[n] = b';';
            exp[n + 1] = b'1';
            n += 2;
        }
        Some(false) => {
            exp[n] = b';';
            exp[n + 1] = b'2';
            exp[n + 2] = b'2';
            n += 3;
        }
        None => {}
    }
    exp[n] = b'm';
    n += 1;

    assert!(out.len() == n);
    let mut i = 0;
    while i < 16 {
        if i < n {
            assert!(out[i] == exp[i]);
        }
        i += 1;
    }
    cover!(text.is_some() && background.is_some() && intense == Some(false), "longest sequence: text, background, not intense");
    cover!(n == 4, "shortest sequence: plain reset");
    if witness {
        assert!(false, "WITNESS");
    }
    std::mem::forget(w);
}

harnesses! {
    #[kani::unwind(18)]
    fn c18_ansi_all_styles() { body(false) }
    #[kani::unwind(18)]
    fn c18_ansi_all_styles_witness() { body(true) }
}
