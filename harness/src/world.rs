//! Environment models (DESIGN.md section 4): a model file system (E4), a model
//! process environment (E6).  Under `cfg(kani)` the functions of `std::fs` /
//! `std::env` that the code under check calls are replaced (`#[kani::stub]`)
//! by the `stub_*` functions below, which act on the static model; natively the
//! real `std::fs` / `std::env` act on a fresh directory / the real process
//! environment, and the harness-side accessors (`put`, `get`, ...) read and
//! write that real state.  Harness bodies therefore run unchanged in both modes.
//!
//! The model never draws symbolic values itself: fault plans and initial
//! states are drawn by the harness body and written into the model.

pub mod fs {
    use std::ffi::OsStr;
    use std::io;
    use std::path::{Path, PathBuf};

    pub const NSLOT: usize = 10;
    pub const NDIR: usize = 8;
    pub const NINODE: usize = NSLOT + 6;
    pub const CAP: usize = 24;
    pub const NONE: usize = usize::MAX;

    #[derive(Clone, Copy)]
    pub struct Inode {
        pub used: bool,
        pub len: usize,
        pub data: [u8; CAP],
        /// bytes written beyond CAP are counted but not stored
        pub overflow: bool,
    }

    pub const EMPTY_INODE: Inode = Inode {
        used: false,
        len: 0,
        data: [0; CAP],
        overflow: false,
    };

    /// The model disk.  A *slot* is a path name the instance knows about; a slot is
    /// linked to an inode or to nothing; open handles refer to inodes, so a writer that
    /// survives a rename keeps writing into the renamed file (Unix semantics).
    #[derive(Clone, Copy)]
    pub struct Disk {
        /// path of slot i relative to the root, e.g. "a.0" or "0/a"
        pub names: [&'static str; NSLOT],
        pub nslots: usize,
        /// directory (index into dirs) that contains slot i
        pub dir_of: [usize; NSLOT],
        pub link: [usize; NSLOT],
        /// a non-empty directory sits at this name: rename/copy onto it and open fail
        pub obstacle: [bool; NSLOT],
        pub inodes: [Inode; NINODE],
        /// directory names relative to the root ("" = the root itself)
        pub dirs: [&'static str; NDIR],
        pub ndirs: usize,
        pub dir_exists: [bool; NDIR],
        /// a path outside the registered names was touched
        pub unknown_touched: bool,
        /// number of mutating operations performed so far
        pub ops: usize,
        /// the ops-th mutating operation (0-based) fails with a non-NotFound error
        pub fault_at: usize,
        /// next fresh inode (inodes 0..NSLOT are reserved for the initial content of each slot, so
        /// that initial states drawn under symbolic conditions do not make inode numbers symbolic)
        pub next_inode: usize,
        /// rename always fails with a non-NotFound error (models "different mount": exercises the
        /// copy + remove fallback of move_file)
        pub rename_cross_device: bool,
    }

    pub const EMPTY_DISK: Disk = Disk {
        names: [""; NSLOT],
        nslots: 0,
        dir_of: [0; NSLOT],
        link: [NONE; NSLOT],
        obstacle: [false; NSLOT],
        inodes: [EMPTY_INODE; NINODE],
        dirs: [""; NDIR],
        ndirs: 1,
        dir_exists: [true, false, false, false, false, false, false, false],
        unknown_touched: false,
        ops: 0,
        fault_at: NONE,
        next_inode: NSLOT,
        rename_cross_device: false,
    };

    pub static mut DISK: Disk = EMPTY_DISK;

    #[cfg(kani)]
    pub const ROOT: &str = "/l";

    #[cfg(not(kani))]
    pub static mut NATIVE_ROOT: Option<PathBuf> = None;

    pub fn disk() -> &'static mut Disk {
        unsafe { &mut *std::ptr::addr_of_mut!(DISK) }
    }

    /// Start a fresh world: an empty model disk / a fresh empty native directory.
    pub fn reset() {
        *disk() = EMPTY_DISK;
        #[cfg(not(kani))]
        unsafe {
            static mut COUNTER: u32 = 0;
            COUNTER += 1;
            let p = std::env::temp_dir().join(format!("l4v-{}-{}", std::process::id(), COUNTER));
            let _ = std::fs::remove_dir_all(&p);
            std::fs::create_dir_all(&p).unwrap();
            NATIVE_ROOT = Some(p);
        }
    }

    /// Remove the native directory (no-op for the model).
    pub fn cleanup() {
        #[cfg(not(kani))]
        unsafe {
            if let Some(p) = (*std::ptr::addr_of!(NATIVE_ROOT)).as_ref() {
                let _ = std::fs::remove_dir_all(p);
            }
        }
    }

    /// The root directory as text, no trailing slash.
    pub fn root() -> String {
        #[cfg(kani)]
        {
            String::from(ROOT)
        }
        #[cfg(not(kani))]
        unsafe {
            (*std::ptr::addr_of!(NATIVE_ROOT)).as_ref().unwrap().to_str().unwrap().to_owned()
        }
    }

    /// Register directory `rel` (relative to the root); returns its index.
    pub fn add_dir(rel: &'static str, exists: bool) -> usize {
        let d = disk();
        let i = d.ndirs;
        d.dirs[i] = rel;
        d.dir_exists[i] = exists;
        d.ndirs += 1;
        #[cfg(not(kani))]
        if exists {
            std::fs::create_dir_all(Path::new(&root()).join(rel)).unwrap();
        }
        i
    }

    /// Register file name `rel` in directory `dir`; returns the slot.
    pub fn add_name(rel: &'static str, dir: usize) -> usize {
        let d = disk();
        let i = d.nslots;
        d.names[i] = rel;
        d.dir_of[i] = dir;
        d.nslots += 1;
        i
    }

    pub fn path(slot: usize) -> String {
        let mut s = root();
        s.push('/');
        s.push_str(disk().names[slot]);
        s
    }

    /// Create the file at `slot` with the given content (initial state).
    pub fn put(slot: usize, content: &[u8]) {
        #[cfg(kani)]
        {
            let d = disk();
            // the slot's reserved inode, unless an earlier file created here is still around
            // under another name (then a fresh one)
            let ino = if d.inodes[slot].used { alloc_inode(d) } else { slot };
            d.inodes[ino] = EMPTY_INODE;
            d.inodes[ino].used = true;
            let mut i = 0;
            while i < content.len() && i < CAP {
                d.inodes[ino].data[i] = content[i];
                i += 1;
            }
            d.inodes[ino].len = content.len();
            d.link[slot] = ino;
        }
        #[cfg(not(kani))]
        {
            let p = path(slot);
            if let Some(parent) = Path::new(&p).parent() {
                std::fs::create_dir_all(parent).unwrap();
            }
            std::fs::write(p, content).unwrap();
        }
    }

    /// Place a non-empty directory at `slot` (an obstacle: renaming a file onto it fails).
    pub fn put_obstacle(slot: usize) {
        #[cfg(kani)]
        {
            disk().obstacle[slot] = true;
        }
        #[cfg(not(kani))]
        {
            let p = path(slot);
            std::fs::create_dir_all(Path::new(&p).join("x")).unwrap();
        }
    }

    pub fn remove_obstacle(slot: usize) {
        #[cfg(kani)]
        {
            disk().obstacle[slot] = false;
        }
        #[cfg(not(kani))]
        {
            let _ = std::fs::remove_dir_all(path(slot));
        }
    }

    /// Content of the file at `slot`: (length, first CAP bytes), or None if absent.
    pub fn get(slot: usize) -> Option<(usize, [u8; CAP])> {
        #[cfg(kani)]
        {
            let d = disk();
            let ino = d.link[slot];
            if ino == NONE {
                return None;
            }
            Some((d.inodes[ino].len, d.inodes[ino].data))
        }
        #[cfg(not(kani))]
        {
            let p = path(slot);
            let md = std::fs::metadata(&p).ok()?;
            if !md.is_file() {
                return None;
            }
            let bytes = std::fs::read(&p).ok()?;
            let mut data = [0u8; CAP];
            for (i, b) in bytes.iter().take(CAP).enumerate() {
                data[i] = *b;
            }
            Some((bytes.len(), data))
        }
    }

    pub fn dir_present(dir: usize) -> bool {
        #[cfg(kani)]
        {
            disk().dir_exists[dir]
        }
        #[cfg(not(kani))]
        {
            Path::new(&root()).join(disk().dirs[dir]).is_dir()
        }
    }

    /// Did the code touch a path that is not one of the registered names?
    /// (natively: does the root contain anything that is not registered?)
    pub fn unknown_touched() -> bool {
        #[cfg(kani)]
        {
            disk().unknown_touched
        }
        #[cfg(not(kani))]
        {
            fn walk(dir: &Path, rel: &str, out: &mut Vec<String>) {
                if let Ok(rd) = std::fs::read_dir(dir) {
                    for e in rd.flatten() {
                        let name = e.file_name().to_string_lossy().into_owned();
                        let r = if rel.is_empty() { name.clone() } else { format!("{}/{}", rel, name) };
                        if e.path().is_dir() {
                            out.push(format!("{}/", r));
                            walk(&e.path(), &r, out);
                        } else {
                            out.push(r);
                        }
                    }
                }
            }
            let mut all = Vec::new();
            walk(Path::new(&root()), "", &mut all);
            let d = disk();
            for e in all {
                let mut known = false;
                for i in 0..d.nslots {
                    if e == d.names[i] || e == format!("{}/", d.names[i]) || e.starts_with(&format!("{}/", d.names[i])) {
                        known = true;
                    }
                }
                for i in 0..d.ndirs {
                    if e == format!("{}/", d.dirs[i]) {
                        known = true;
                    }
                }
                if !known {
                    return true;
                }
            }
            false
        }
    }

    pub fn set_fault_at(k: usize) {
        disk().fault_at = k;
    }
    pub fn set_rename_cross_device(b: bool) {
        disk().rename_cross_device = b;
    }
    pub fn ops() -> usize {
        disk().ops
    }
    pub fn snapshot() -> Disk {
        *disk()
    }

    // ------------------------------------------------------------------------------
    // model internals (used by the stubs)
    // ------------------------------------------------------------------------------

    pub fn alloc_inode(d: &mut Disk) -> usize {
        let i = d.next_inode;
        if i >= NINODE {
            // out of model inodes: outside the bound of the instance
            crate::sym::cut()
        }
        d.next_inode += 1;
        d.inodes[i] = EMPTY_INODE;
        d.inodes[i].used = true;
        i
    }

    fn bytes_match(path: &[u8], root: &[u8], rel: &[u8]) -> bool {
        // path == root + "/" + rel   (rel == "" matches root itself)
        if rel.is_empty() {
            if path.len() != root.len() {
                return false;
            }
        } else if path.len() != root.len() + 1 + rel.len() {
            return false;
        }
        let mut i = 0;
        while i < root.len() {
            if path[i] != root[i] {
                return false;
            }
            i += 1;
        }
        if rel.is_empty() {
            return true;
        }
        if path[root.len()] != b'/' {
            return false;
        }
        let mut j = 0;
        while j < rel.len() {
            if path[root.len() + 1 + j] != rel[j] {
                return false;
            }
            j += 1;
        }
        true
    }

    #[cfg(kani)]
    pub fn lookup(p: &Path) -> usize {
        let bytes = p.as_os_str().as_encoded_bytes();
        let d = disk();
        let mut i = 0;
        while i < d.nslots {
            if bytes_match(bytes, ROOT.as_bytes(), d.names[i].as_bytes()) {
                return i;
            }
            i += 1;
        }
        d.unknown_touched = true;
        NONE
    }

    #[cfg(kani)]
    fn lookup_dir(p: &Path) -> usize {
        let bytes = p.as_os_str().as_encoded_bytes();
        let d = disk();
        let mut i = 0;
        while i < d.ndirs {
            if bytes_match(bytes, ROOT.as_bytes(), d.dirs[i].as_bytes()) {
                return i;
            }
            i += 1;
        }
        // ancestors of the root ("/" and "") exist
        if bytes.len() <= 1 {
            return 0;
        }
        d.unknown_touched = true;
        NONE
    }

    fn not_found() -> io::Error {
        io::Error::from(io::ErrorKind::NotFound)
    }
    fn denied() -> io::Error {
        io::Error::from(io::ErrorKind::PermissionDenied)
    }

    /// one mutating operation is about to happen: does the fault plan make it fail?
    pub fn faulted(d: &mut Disk) -> bool {
        let k = d.ops;
        d.ops += 1;
        k == d.fault_at
    }

    // ------------------------------------------------------------------------------
    // stubs for std::fs free functions (signatures mirror std's)
    // ------------------------------------------------------------------------------

    #[cfg(kani)]
    pub fn stub_rename<P: AsRef<Path>, Q: AsRef<Path>>(from: P, to: Q) -> io::Result<()> {
        let a = lookup(from.as_ref());
        let b = lookup(to.as_ref());
        let d = disk();
        if faulted(d) {
            return Err(denied());
        }
        if a == NONE || b == NONE {
            return Err(not_found());
        }
        if d.link[a] == NONE && !d.obstacle[a] {
            return Err(not_found());
        }
        if !d.dir_exists[d.dir_of[b]] {
            return Err(not_found());
        }
        if d.rename_cross_device {
            return Err(denied());
        }
        if d.obstacle[b] || d.obstacle[a] {
            // a non-empty directory at the destination (ENOTEMPTY / EISDIR), or the source is one
            return Err(denied());
        }
        d.link[b] = d.link[a];
        d.link[a] = NONE;
        Ok(())
    }

    #[cfg(kani)]
    pub fn stub_copy<P: AsRef<Path>, Q: AsRef<Path>>(from: P, to: Q) -> io::Result<u64> {
        let a = lookup(from.as_ref());
        let b = lookup(to.as_ref());
        let d = disk();
        if faulted(d) {
            return Err(denied());
        }
        if a == NONE || b == NONE || d.link[a] == NONE {
            return Err(not_found());
        }
        if !d.dir_exists[d.dir_of[b]] {
            return Err(not_found());
        }
        if d.obstacle[b] {
            return Err(denied());
        }
        let src = d.inodes[d.link[a]];
        let dst = if d.link[b] != NONE {
            d.link[b]
        } else {
            let n = alloc_inode(d);
            d.link[b] = n;
            n
        };
        d.inodes[dst].len = src.len;
        d.inodes[dst].data = src.data;
        Ok(src.len as u64)
    }

    #[cfg(kani)]
    pub fn stub_remove_file<P: AsRef<Path>>(p: P) -> io::Result<()> {
        let a = lookup(p.as_ref());
        let d = disk();
        if faulted(d) {
            return Err(denied());
        }
        if a == NONE || d.link[a] == NONE {
            if a != NONE && d.obstacle[a] {
                return Err(denied());
            }
            return Err(not_found());
        }
        // the inode stays allocated: an open handle may still refer to it
        d.link[a] = NONE;
        Ok(())
    }

    #[cfg(kani)]
    pub fn stub_create_dir_all<P: AsRef<Path>>(p: P) -> io::Result<()> {
        let i = lookup_dir(p.as_ref());
        let d = disk();
        if faulted(d) {
            return Err(denied());
        }
        if i == NONE {
            return Err(denied());
        }
        d.dir_exists[i] = true;
        Ok(())
    }
}

pub mod env {
    //! E6: the process environment.  `set(name, Some(value))` / `set(name, None)` before the
    //! code under check runs; under Kani `std::env::var` is stubbed by `stub_var`.
    use std::env::VarError;
    use std::ffi::OsStr;

    pub const NVAR: usize = 4;
    pub static mut NAMES: [&'static str; NVAR] = [""; NVAR];
    pub static mut VALUES: [Option<&'static str>; NVAR] = [None; NVAR];
    pub static mut N: usize = 0;
    /// a variable outside the table was looked up
    pub static mut UNKNOWN_LOOKUP: bool = false;

    pub fn reset() {
        unsafe {
            N = 0;
            UNKNOWN_LOOKUP = false;
        }
    }

    pub fn set(name: &'static str, value: Option<&'static str>) {
        unsafe {
            NAMES[N] = name;
            VALUES[N] = value;
            N += 1;
        }
        #[cfg(not(kani))]
        match value {
            Some(v) => std::env::set_var(name, v),
            None => std::env::remove_var(name),
        }
    }

    #[cfg(kani)]
    pub fn stub_var<K: AsRef<OsStr>>(key: K) -> Result<String, VarError> {
        let k = key.as_ref().as_encoded_bytes();
        unsafe {
            let mut i = 0;
            while i < N {
                let n = NAMES[i].as_bytes();
                if n.len() == k.len() {
                    let mut same = true;
                    let mut j = 0;
                    while j < n.len() {
                        if n[j] != k[j] {
                            same = false;
                        }
                        j += 1;
                    }
                    if same {
                        return match VALUES[i] {
                            Some(v) => Ok(String::from(v)),
                            None => Err(VarError::NotPresent),
                        };
                    }
                }
                i += 1;
            }
            UNKNOWN_LOOKUP = true;
        }
        Err(VarError::NotPresent)
    }
}
