//! C20: size and interval literals.  Units under check: the visitor of
//! `size::deserialize_limit` reached through the derived `SizeTriggerConfig::deserialize`,
//! and `<TimeTriggerInterval as Deserialize>::deserialize`, driven by serde's own value
//! deserializers (string / u64 / i64 scalars) with an error type that discards messages.
use crate::sym;
use log4rs::append::rolling_file::policy::compound::trigger::size::SizeTriggerConfig;
use log4rs::append::rolling_file::policy::compound::trigger::time::TimeTriggerInterval;
use serde::de::value::{I64Deserializer, MapDeserializer, StrDeserializer, U64Deserializer};
use serde::de::IntoDeserializer;
use serde::Deserialize;

/// serde error that keeps nothing (no formatting in the goto program).
#[derive(Debug)]
pub struct E;
impl std::fmt::Display for E {
    fn fmt(&self, _f: &mut std::fmt::Formatter<'_>) -> std::fmt::Result {
        Ok(())
    }
}
impl std::error::Error for E {}
impl serde::de::Error for E {
    fn custom<T: std::fmt::Display>(_msg: T) -> Self {
        E
    }
}

/// A scalar that deserializes as a string, a u64 or an i64.
#[derive(Clone, Copy)]
pub enum Scalar<'a> {
    S(&'a str),
    U(u64),
    I(i64),
}
impl<'de, 'a> IntoDeserializer<'de, E> for Scalar<'a> {
    type Deserializer = ScalarDe<'a>;
    fn into_deserializer(self) -> ScalarDe<'a> {
        ScalarDe(self)
    }
}
pub struct ScalarDe<'a>(Scalar<'a>);
impl<'de, 'a> serde::Deserializer<'de> for ScalarDe<'a> {
    type Error = E;
    fn deserialize_any<V: serde::de::Visitor<'de>>(self, v: V) -> Result<V::Value, E> {
        match self.0 {
            Scalar::S(s) => v.visit_str(s),
            Scalar::U(u) => v.visit_u64(u),
            Scalar::I(i) => v.visit_i64(i),
        }
    }
    serde::forward_to_deserialize_any! {
        bool i8 i16 i32 i64 i128 u8 u16 u32 u64 u128 f32 f64 char str string bytes byte_buf option unit
        unit_struct newtype_struct seq tuple tuple_struct map struct enum identifier ignored_any
    }
}

fn parse_size(s: Scalar) -> Option<u64> {
    let md = MapDeserializer::<_, E>::new(std::iter::once(("limit", s)));
    match SizeTriggerConfig::deserialize(md) {
        Ok(c) => Some(c.verif_limit()),
        Err(_) => None,
    }
}

fn parse_interval(s: Scalar) -> Option<TimeTriggerInterval> {
    match TimeTriggerInterval::deserialize(ScalarDe(s)) {
        Ok(i) => Some(i),
        Err(_) => None,
    }
}

/// Builds "<digits><blank?><unit with case mask><blank?>" into `buf`; returns (len, value as
/// u128 or None when there is no digit).
fn build(buf: &mut [u8; 40], ndig_max: usize, unit: &[u8], lead_digit_free: bool) -> (usize, Option<u128>) {
    let nd = sym::below(ndig_max as u8 + 1) as usize;
    let mut len = 0;
    let mut val: u128 = 0;
    let mut i = 0;
    while i < ndig_max {
        if i < nd {
            let d = sym::below(10);
            buf[len] = b'0' + d;
            len += 1;
            val = val * 10 + d as u128;
        }
        i += 1;
    }
    let _ = lead_digit_free;
    if !unit.is_empty() && sym::any_bool() {
        buf[len] = b' ';
        len += 1;
    }
    let mask = sym::any_u8();
    let mut j = 0;
    while j < unit.len() {
        let c = unit[j];
        buf[len] = if c.is_ascii_lowercase() && (mask >> (j % 8)) & 1 == 1 { c - 32 } else { c };
        len += 1;
        j += 1;
    }
    if !unit.is_empty() && sym::any_bool() {
        buf[len] = b' ';
        len += 1;
    }
    (len, if nd == 0 { None } else { Some(val) })
}

/// Size literal with the unit word `unit` (instance parameter); `mult`: Some(multiplier) for a
/// known unit, None for junk.
pub fn body_size(unit: &'static str, mult: Option<u128>, ndig_max: usize, witness: bool) {
    let mut buf = [0u8; 40];
    let (len, val) = build(&mut buf, ndig_max, unit.as_bytes(), true);
    let text = unsafe { std::str::from_utf8_unchecked(&buf[..len]) };
    let got = parse_size(Scalar::S(text));
    let exp: Option<u64> = match (val, mult) {
        (Some(v), Some(m)) => {
            let p = v * m;
            if p <= u64::MAX as u128 {
                Some(p as u64)
            } else {
                None
            }
        }
        _ => None,
    };
    assert!(got == exp, "C20: a size literal parses to exactly number x unit, otherwise it is rejected");
    let w1 = if mult.is_some() { got.is_some() && (got.unwrap() >= 10 || unit.is_empty()) } else { val.is_some() };
    cover!(w1, "an accepted literal (known unit) / a number with a junk suffix");
    cover!(got.is_none(), "a rejected literal");
    if witness {
        assert!(false, "WITNESS");
    }
}

/// Size literal made of up to 20 digits, the first digits fixed around 2^64 / multiplier
/// (overflow thresholds), the last two free.
pub fn body_size_threshold(prefix: &'static str, unit: &'static str, mult: u128, witness: bool) {
    let mut buf = [0u8; 40];
    let mut len = 0;
    let mut val: u128 = 0;
    for &c in prefix.as_bytes() {
        buf[len] = c;
        len += 1;
        val = val * 10 + (c - b'0') as u128;
    }
    for _ in 0..2 {
        let d = sym::below(10);
        buf[len] = b'0' + d;
        len += 1;
        val = val * 10 + d as u128;
    }
    for &c in unit.as_bytes() {
        buf[len] = c;
        len += 1;
    }
    let text = unsafe { std::str::from_utf8_unchecked(&buf[..len]) };
    let got = parse_size(Scalar::S(text));
    let p = val * mult;
    let exp = if p <= u64::MAX as u128 { Some(p as u64) } else { None };
    assert!(got == exp, "C20: values that would overflow are rejected, the largest representable ones accepted");
    cover!(got.is_some(), "just below the overflow threshold");
    cover!(got.is_none(), "just above the overflow threshold");
    if witness {
        assert!(false, "WITNESS");
    }
}

/// Integer scalar forms of a size.
pub fn body_size_int(witness: bool) {
    let u = sym::any_u64();
    assert!(parse_size(Scalar::U(u)) == Some(u), "C20: bare unsigned numbers mean bytes");
    let i = sym::any_i64();
    let exp = if i < 0 { None } else { Some(i as u64) };
    assert!(parse_size(Scalar::I(i)) == exp, "C20: negative numbers are rejected");
    cover!(i < 0, "negative");
    if witness {
        assert!(false, "WITNESS");
    }
}

#[derive(Clone, Copy, PartialEq)]
pub enum IU {
    Second,
    Minute,
    Hour,
    Day,
    Week,
    Month,
    Year,
    Junk,
}

fn mk(u: IU, n: i64) -> Option<TimeTriggerInterval> {
    Some(match u {
        IU::Second => TimeTriggerInterval::Second(n),
        IU::Minute => TimeTriggerInterval::Minute(n),
        IU::Hour => TimeTriggerInterval::Hour(n),
        IU::Day => TimeTriggerInterval::Day(n),
        IU::Week => TimeTriggerInterval::Week(n),
        IU::Month => TimeTriggerInterval::Month(n),
        IU::Year => TimeTriggerInterval::Year(n),
        IU::Junk => return None,
    })
}

pub fn body_interval(unit: &'static str, iu: IU, ndig_max: usize, witness: bool) {
    let mut buf = [0u8; 40];
    let (len, val) = build(&mut buf, ndig_max, unit.as_bytes(), true);
    let text = unsafe { std::str::from_utf8_unchecked(&buf[..len]) };
    let got = parse_interval(Scalar::S(text));
    let exp = match val {
        Some(v) if v <= i64::MAX as u128 => {
            if unit.is_empty() {
                Some(TimeTriggerInterval::Second(v as i64))
            } else {
                mk(iu, v as i64)
            }
        }
        _ => None,
    };
    assert!(got == exp, "C20: an interval literal parses to exactly number x named unit, otherwise it is rejected");
    let w1 = if iu != IU::Junk { got.is_some() } else { val.is_some() };
    cover!(w1, "an accepted interval (known unit) / a number with a junk suffix");
    cover!(got.is_none(), "a rejected interval");
    if witness {
        assert!(false, "WITNESS");
    }
}

/// Integer scalar forms of an interval: seconds; negative or not representable -> rejected.
pub fn body_interval_int(allow_known: bool, witness: bool) {
    let i = sym::any_i64();
    let exp = if i < 0 { None } else { Some(TimeTriggerInterval::Second(i)) };
    assert!(parse_interval(Scalar::I(i)) == exp, "C20: negative numbers are rejected");
    let u = sym::any_u64();
    let _ = allow_known;
    let expu = if u <= i64::MAX as u64 { Some(TimeTriggerInterval::Second(u as i64)) } else { None };
    assert!(parse_interval(Scalar::U(u)) == expu, "C20: values that would overflow are rejected instead of wrapping");
    cover!(i < 0, "negative");
    if witness {
        assert!(false, "WITNESS");
    }
}

const KB: u128 = 1024;
harnesses! {
    #[kani::unwind(8)]
    fn size_int() { body_size_int(false) }
    #[kani::unwind(8)]
    fn size_bare_3() { body_size("", Some(1), 3, false) }
    #[kani::unwind(8)]
    fn size_b_2() { body_size("b", Some(1), 2, false) }
    #[kani::unwind(8)]
    fn size_kb_2() { body_size("kb", Some(KB), 2, false) }
    #[kani::unwind(8)]
    fn size_kb_2_witness() { body_size("kb", Some(KB), 2, true) }
    #[kani::unwind(8)]
    fn size_kib_2() { body_size("kib", Some(KB), 2, false) }
    #[kani::unwind(8)]
    fn size_mb_2() { body_size("mb", Some(KB * KB), 2, false) }
    #[kani::unwind(8)]
    fn size_mib_2() { body_size("mib", Some(KB * KB), 2, false) }
    #[kani::unwind(8)]
    fn size_gb_2() { body_size("gb", Some(KB * KB * KB), 2, false) }
    #[kani::unwind(8)]
    fn size_gib_2() { body_size("gib", Some(KB * KB * KB), 2, false) }
    #[kani::unwind(8)]
    fn size_tb_2() { body_size("tb", Some(KB * KB * KB * KB), 2, false) }
    #[kani::unwind(8)]
    fn size_tib_2() { body_size("tib", Some(KB * KB * KB * KB), 2, false) }
    #[kani::unwind(8)]
    fn size_junk_x() { body_size("x", None, 2, false) }
    #[kani::unwind(8)]
    fn size_junk_frac() { body_size(".5kb", None, 2, false) }
    #[kani::unwind(8)]
    fn size_junk_kbb() { body_size("kbb", None, 2, false) }
    #[kani::unwind(8)]
    fn size_junk_minus() { body_size("-", None, 2, false) }
    // 2^64 = 18446744073709551616 ; /1024 = 18014398509481984 ; /1024^4 = 16777216
    #[kani::unwind(24)]
    fn size_thr_bare() { body_size_threshold("184467440737095516", "", 1, false) }
    #[kani::unwind(24)]
    fn size_thr_kb() { body_size_threshold("180143985094819", "kb", KB, false) }
    #[kani::unwind(24)]
    fn size_thr_tb() { body_size_threshold("167772", "tb", KB * KB * KB * KB, false) }

    #[kani::unwind(8)]
    fn interval_int() { body_interval_int(false, false) }
    #[kani::unwind(10)]
    fn interval_bare_3() { body_interval("", IU::Second, 3, false) }
    #[kani::unwind(10)]
    fn interval_second() { body_interval("second", IU::Second, 2, false) }
    #[kani::unwind(10)]
    fn interval_seconds() { body_interval("seconds", IU::Second, 2, false) }
    #[kani::unwind(10)]
    fn interval_minute() { body_interval("minute", IU::Minute, 2, false) }
    #[kani::unwind(10)]
    fn interval_minutes() { body_interval("minutes", IU::Minute, 2, false) }
    #[kani::unwind(10)]
    fn interval_hour() { body_interval("hour", IU::Hour, 2, false) }
    #[kani::unwind(10)]
    fn interval_hours() { body_interval("hours", IU::Hour, 2, false) }
    #[kani::unwind(10)]
    fn interval_day() { body_interval("day", IU::Day, 2, false) }
    #[kani::unwind(10)]
    fn interval_days() { body_interval("days", IU::Day, 2, false) }
    #[kani::unwind(10)]
    fn interval_week() { body_interval("week", IU::Week, 2, false) }
    #[kani::unwind(10)]
    fn interval_weeks() { body_interval("weeks", IU::Week, 2, false) }
    #[kani::unwind(10)]
    fn interval_month() { body_interval("month", IU::Month, 2, false) }
    #[kani::unwind(10)]
    fn interval_months() { body_interval("months", IU::Month, 2, false) }
    #[kani::unwind(10)]
    fn interval_year() { body_interval("year", IU::Year, 2, false) }
    #[kani::unwind(10)]
    fn interval_years() { body_interval("years", IU::Year, 2, false) }
    #[kani::unwind(10)]
    fn interval_junk_x() { body_interval("x", IU::Junk, 2, false) }
    #[kani::unwind(10)]
    fn interval_junk_secondss() { body_interval("secondss", IU::Junk, 2, false) }
}
