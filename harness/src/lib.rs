//! Kani harnesses over the real log4rs code (path dependency on /repo).
//! The same bodies run natively from `src/bin/replay.rs` on concrete values.
#![allow(dead_code, unused_imports, unused_macros, unused_variables)]
#![recursion_limit = "1024"]

#[macro_use]
pub mod sym;

pub mod util;
pub mod world;
pub mod wfile;
pub mod c01_tree;
pub mod c02_max;
pub mod c03_filters;
pub mod c06_triggers;
pub mod c07_window;
pub mod c13_names;
pub mod c16_time;
pub mod c04_file;
pub mod c05_rolling;
pub mod c08_faults;
pub mod c09_pattern;
pub mod c09_units;
pub mod c10_width;
pub mod c10_spec;
pub mod c11_safe;
pub mod c11_parse;
pub mod c11_date;
pub mod c12_json;
pub mod c13_builder;
pub mod c15_swap;
pub mod c18_console;
pub mod c18_ansi;
pub mod c19_env;
pub mod c19_value;
pub mod c20_literals;
pub mod selftest;
pub mod probe;

pub fn tables() -> Vec<(&'static str, &'static [(&'static str, fn())])> {
    vec![
        ("selftest", selftest::TABLE),
        ("probe", probe::TABLE),
        ("probe::b13", probe::b13::TABLE),
        ("probe::bisect", probe::bisect::TABLE),
        ("c01_tree", c01_tree::TABLE),
        ("c02_max", c02_max::TABLE),
        ("c03_filters", c03_filters::TABLE),
        ("c06_triggers", c06_triggers::TABLE),
        ("c07_window", c07_window::TABLE),
        ("c13_names", c13_names::TABLE),
        ("c16_time", c16_time::TABLE),
        ("c04_file", c04_file::TABLE),
        ("c05_rolling", c05_rolling::TABLE),
        ("c08_faults", c08_faults::TABLE),
        ("c09_pattern", c09_pattern::TABLE),
        ("c09_units", c09_units::TABLE),
        ("c10_width", c10_width::TABLE),
        ("c10_spec", c10_spec::TABLE),
        ("c11_safe", c11_safe::TABLE),
        ("c11_parse", c11_parse::TABLE),
        ("c11_date", c11_date::TABLE),
        ("c12_json", c12_json::TABLE),
        ("c13_builder", c13_builder::TABLE),
        ("c15_swap", c15_swap::TABLE),
        ("c18_console", c18_console::TABLE),
        ("c18_ansi", c18_ansi::TABLE),
        ("c19_env", c19_env::TABLE),
        ("c19_value", c19_value::TABLE),
        ("c20_literals", c20_literals::TABLE),
    ]
}
