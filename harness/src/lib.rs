//! Kani harnesses over the real log4rs code (path dependency on /repo).
//! The same bodies run natively from `src/bin/replay.rs` on concrete values.
#![allow(dead_code, unused_imports, unused_macros, unused_variables)]
#![recursion_limit = "1024"]

#[macro_use]
pub mod sym;

pub mod c18_ansi;
pub mod selftest;

pub fn tables() -> Vec<(&'static str, &'static [(&'static str, fn())])> {
    vec![
        ("selftest", selftest::TABLE),
        ("c18_ansi", c18_ansi::TABLE),
    ]
}
