//! Kani harnesses over the real log4rs code (path dependency on /repo).
//! The same bodies run natively from `src/bin/replay.rs` on concrete values.
#![allow(dead_code, unused_imports, unused_macros, unused_variables)]
#![recursion_limit = "1024"]

#[macro_use]
pub mod sym;

pub mod util;
pub mod world;
pub mod c01_tree;
pub mod c03_filters;
pub mod c06_triggers;
pub mod c07_window;
pub mod c13_names;
pub mod c16_time;
pub mod c18_ansi;
pub mod c19_env;
pub mod c20_literals;
pub mod selftest;
pub mod probe;

pub fn tables() -> Vec<(&'static str, &'static [(&'static str, fn())])> {
    vec![
        ("selftest", selftest::TABLE),
        ("probe", probe::TABLE),
        ("c01_tree", c01_tree::TABLE),
        ("c03_filters", c03_filters::TABLE),
        ("c06_triggers", c06_triggers::TABLE),
        ("c07_window", c07_window::TABLE),
        ("c13_names", c13_names::TABLE),
        ("c16_time", c16_time::TABLE),
        ("c18_ansi", c18_ansi::TABLE),
        ("c19_env", c19_env::TABLE),
        ("c20_literals", c20_literals::TABLE),
    ]
}
