//! C02 (global maximum): `max_log_level()` equals the most verbose level configured anywhere in
//! the tree.  Unit under check: the real recursive `ConfiguredLogger::max_log_level` over the
//! children container (model E1); the tree is assembled by the door-opener `Tree::from_shape`
//! (no `add`: the insertion path is checked by c01_tree and is what did not fit for two declared
//! loggers).  The shape is an instance parameter, every level is symbolic.
use crate::sym;
use crate::util::*;
use log::LevelFilter;
use log4rs::verif_hooks::Tree;

pub fn body(parent: &'static [usize], witness: bool) {
    let n = parent.len();
    let mut levels = [LevelFilter::Off; 6];
    let mut exp = 0u8;
    let mut i = 0;
    while i < n {
        levels[i] = any_level_filter();
        if filter_rank(levels[i]) > exp {
            exp = filter_rank(levels[i]);
        }
        i += 1;
    }
    let t = Tree::from_shape(&levels[..n], parent);
    let m = t.max_log_level();
    std::mem::forget(t);
    assert!(filter_rank(m) == exp, "C02: max_log_level is the most verbose level among the root and all declared loggers");
    cover!(n >= 3 && filter_rank(levels[1]) < filter_rank(levels[0]) && filter_rank(levels[n - 1]) > filter_rank(levels[0]),
           "a quiet intermediate logger above a verbose descendant");
    cover!(filter_rank(levels[0]) == exp && exp > 0, "the root is the most verbose");
    if witness {
        assert!(false, "WITNESS");
    }
}

// parent[i] = index of node i's parent (node 0 = root)
pub static CHAIN3: [usize; 3] = [0, 0, 1]; // root - a - b
pub static CHAIN4: [usize; 4] = [0, 0, 1, 2]; // root - a - b - c
pub static FORK: [usize; 3] = [0, 0, 0]; // root - {a, b}
pub static FORK_DEEP: [usize; 5] = [0, 0, 0, 1, 2]; // root - {a - c, b - d}
pub static BUSH: [usize; 6] = [0, 0, 0, 1, 1, 2]; // root - {a - {c, d}, b - e}

harnesses! {
    #[kani::unwind(8)]
    fn max_chain3() { body(&CHAIN3, false) }
    #[kani::unwind(8)]
    fn max_chain3_witness() { body(&CHAIN3, true) }
    #[kani::unwind(8)]
    fn max_fork() { body(&FORK, false) }
    #[kani::unwind(8)]
    fn max_chain4() { body(&CHAIN4, false) }
    #[kani::unwind(8)]
    fn max_fork_deep() { body(&FORK_DEEP, false) }
    #[kani::unwind(8)]
    fn max_bush() { body(&BUSH, false) }
}
