//! C08: a failed rotation loses no acknowledged data and is recoverable.
//! (1) roller level: the real `FixedWindowRoller::roll` / `rotate` / `move_file` with an
//!     obstruction (a non-empty directory) at a solver-chosen archive name, so that exactly the
//!     step that moves a file onto that name fails; then the obstruction is removed and the roll
//!     is repeated.
//! (2) appender level: the real `RollingFileAppender::append` with a harness policy whose roll
//!     fails (same obstruction); the failing append must return an error (no panic), and after
//!     the obstruction is gone the same appender resumes with nothing acknowledged lost.
use crate::sym;
use crate::world::fs;
use log::Record;
use log4rs::append::rolling_file::policy::compound::roll::{fixed_window::FixedWindowRoller, Roll};
use log4rs::append::rolling_file::policy::Policy;
use log4rs::append::rolling_file::{LogFile, RollingFileAppender};
use log4rs::append::Append;
use log4rs::encode::{Encode, Write};
use std::path::Path;

pub const MAXW: usize = 5;

static mut STEP: u8 = 0;
static mut FAIL_AT: u8 = 255;
static mut SNAP_AT: u8 = 255;
static mut R_ACTIVE: usize = 0;
static mut R_SLOTS: [usize; MAXW] = [0; MAXW];
static mut R_COUNT: usize = 0;
/// crash image: content id at the active path and at every window slot (0 = absent)
static mut IMG: [u8; MAXW + 1] = [0; MAXW + 1];
static mut IMG_TAKEN: bool = false;

fn id_at(slot: usize) -> u8 {
    match fs::get(slot) {
        Some((1, d)) => d[0],
        Some(_) => 254, // not whole
        None => 0,
    }
}

struct StepHook;
impl log4rs::verif_hooks::RotateStep for StepHook {
    fn step(&self) -> bool {
        on_step()
    }
}
static STEP_HOOK: StepHook = StepHook;

/// Called by the guarded callback point before every file-system step of `rotate`.
fn on_step() -> bool {
    unsafe {
        let k = STEP;
        STEP += 1;
        if k == SNAP_AT {
            IMG[0] = id_at(R_ACTIVE);
            let mut j = 0;
            while j < R_COUNT {
                IMG[1 + j] = id_at(R_SLOTS[j]);
                j += 1;
            }
            IMG_TAKEN = true;
        }
        k == FAIL_AT
    }
}

/// `img[0]` = active, `img[1 + j]` = slot j.  Everything a completed rotation would retain
/// (the rolled file and old slots 0..count-2) is present, files are whole, and reading slots
/// count-1 .. 0 and then the active path yields ages in non-increasing order.
fn check_image(img: &[u8; MAXW + 1], count: usize, present: &[bool; MAXW]) {
    let mut seen = [false; 32];
    let mut i = 0;
    while i <= count {
        assert!(img[i] != 254, "C08: files stay whole");
        seen[img[i] as usize & 31] = true;
        i += 1;
    }
    assert!(seen[1], "C08: the rolled file's content is on disk at every point of the rotation");
    let mut j = 0;
    while j + 1 < count {
        if present[j] {
            assert!(seen[10 + j], "C08: every archive the completed rotation would retain is on disk at every point");
        }
        j += 1;
    }
    let mut last: u8 = 255;
    let mut j = count;
    while j > 0 {
        let v = img[j];
        if v != 0 {
            assert!(v <= last, "C08: oldest-to-newest reading yields the records in order, without going back");
            last = v;
        }
        j -= 1;
    }
    if img[0] != 0 {
        assert!(img[0] <= last);
    }
}

/// Roller level.  Window slots 0..count hold ids 10+j when present (age grows with j); the
/// active file holds id 1.  The rotation has `count` file-system steps (count-1 shifts and the
/// final move); the solver picks the step that fails (or none) and the step before which the
/// process dies (crash image).
pub fn body_roller(count: u32, witness: bool) {
    fs::reset();
    let active = fs::add_name("a", 0);
    const NAMES: [&str; 5] = ["a.0", "a.1", "a.2", "a.3", "a.4"];
    let c = count as usize;
    let mut slot = [0usize; MAXW];
    let mut present = [false; MAXW];
    for j in 0..c {
        slot[j] = fs::add_name(NAMES[j], 0);
        if sym::any_bool() {
            fs::put(slot[j], &[10 + j as u8]);
            present[j] = true;
        }
    }
    fs::put(active, &[1]);
    let fail_at = sym::below(count as u8 + 1);
    let snap_at = sym::below(count as u8);
    unsafe {
        STEP = 0;
        FAIL_AT = if fail_at == count as u8 { 255 } else { fail_at };
        SNAP_AT = snap_at;
        R_ACTIVE = active;
        R_SLOTS = slot;
        R_COUNT = c;
        IMG_TAKEN = false;
        log4rs::verif_hooks::ROTATE_STEP = Some(&STEP_HOOK);
    }
    let mut pattern = fs::root();
    pattern.push_str("/a.{}");
    let roller = FixedWindowRoller::verif_new(&pattern, 0, count);
    let apath = fs::path(active);

    // `rotate` through the door-opener: the same code `roll` runs, without the conversion of its
    // error into anyhow::Error (whose error objects make every io::Error drop a fan-out)
    let res = roller.verif_rotate(Path::new(&apath));
    let failed = unsafe { FAIL_AT } != 255;
    assert!(res.is_err() == failed, "C08: the failing rotation reports an error (and only then)");
    // ---- state left behind by the failed (or completed) rotation ----------------------------
    let mut now = [0u8; MAXW + 1];
    now[0] = id_at(active);
    for j in 0..c {
        now[1 + j] = id_at(slot[j]);
    }
    if failed {
        check_image(&now, c, &present);
    }
    // ---- crash image: the process died before step `snap_at` ---------------------------------
    if unsafe { IMG_TAKEN } {
        let img = unsafe { IMG };
        check_image(&img, c, &present);
    }
    assert!(!fs::unknown_touched());

    // ---- recovery: the same roller rotates again ------------------------------------------------
    unsafe {
        FAIL_AT = 255;
        SNAP_AT = 255;
    }
    if failed {
        let res2 = roller.verif_rotate(Path::new(&apath));
        assert!(res2.is_ok(), "C08: once the obstruction is gone the roller rotates without manual intervention");
        assert!(fs::get(active).is_none(), "C08: after recovery the rolled file is archived");
        assert!(id_at(slot[0]) == 1, "C08: after recovery the newest archive is the rolled file");
    }
    unsafe {
        log4rs::verif_hooks::ROTATE_STEP = None;
    }
    let w1 = if count >= 2 { failed && fail_at >= 1 } else { failed };
    let taken = unsafe { IMG_TAKEN };
    let w2 = if count >= 2 { taken && snap_at >= 1 } else { taken };
    cover!(w1, "a step failed (count >= 2: a step after the first one)");
    cover!(w2, "a crash image was taken (count >= 2: in the middle of the rotation)");
    if witness {
        assert!(false, "WITNESS");
    }
    fs::cleanup();
    std::mem::forget(roller);
    std::mem::forget(res);
}

// ---- appender level ---------------------------------------------------------------------------
static mut REC_LEN: usize = 0;
static mut REC_VAL: u8 = 0;
static mut ROLL_NOW: bool = false;
static mut ACTIVE: usize = 0;
static mut ARCHIVE: usize = 0;
static mut PRE: bool = false;

#[derive(Debug)]
struct HEnc;
impl Encode for HEnc {
    fn encode(&self, w: &mut dyn Write, _r: &Record) -> anyhow::Result<()> {
        let (len, val) = unsafe { (REC_LEN, REC_VAL) };
        let buf = [val; 3];
        if w.write_all(&buf[..len]).is_err() {
            return Err(anyhow::Error::new(crate::util::TagErr(9)));
        }
        Ok(())
    }
}

#[derive(Debug)]
struct HPolicy;
impl Policy for HPolicy {
    fn process(&self, log: &mut LogFile) -> anyhow::Result<()> {
        unsafe {
            if ROLL_NOW {
                log.roll();
                let from = fs::path(ACTIVE);
                let to = fs::path(ARCHIVE);
                if std::fs::rename(&from, &to).is_err() {
                    return Err(anyhow::Error::new(crate::util::TagErr(8)));
                }
            }
        }
        Ok(())
    }
    fn is_pre_process(&self) -> bool {
        unsafe { PRE }
    }
}

/// `class`: 0 everything, 1 only the recorded finding's class (truncate mode), 2 everything else.
pub fn body_appender(pre: bool, class: u8, witness: bool) {
    body_appender_gen(pre, class, None, witness)
}

/// Constant-size variant: the three record lengths are instance parameters (DESIGN.md 9.8, rule 23).
pub fn body_appender_sized(pre: bool, class: u8, lens: (usize, usize, usize), witness: bool) {
    body_appender_gen(pre, class, Some(lens), witness)
}

pub fn body_appender_gen(pre: bool, class: u8, lens: Option<(usize, usize, usize)>, witness: bool) {
    fs::reset();
    #[cfg(kani)]
    crate::wfile::reset();
    let active = fs::add_name("a.log", 0);
    let archive = fs::add_name("a.0", 0);
    unsafe {
        ACTIVE = active;
        ARCHIVE = archive;
        PRE = pre;
        ROLL_NOW = false;
    }
    let append_mode = sym::any_bool();
    match class {
        1 => sym::assume(!append_mode),
        2 => sym::assume(append_mode),
        _ => {}
    }
    let path = fs::path(active);
    let app = match RollingFileAppender::builder().encoder(Box::new(HEnc)).append(append_mode).build(&path, Box::new(HPolicy)) {
        Ok(a) => a,
        Err(_) => panic!("build failed on a fault-free disk"),
    };
    let record = Record::builder().build();
    // record 1: acknowledged, no roll
    let l1 = match lens {
        Some(l) => l.0,
        None => 1 + sym::below(2) as usize,
    };
    unsafe {
        REC_LEN = l1;
        REC_VAL = 1;
    }
    assert!(app.append(&record).is_ok());
    // record 2: the policy wants to roll, the archive name is obstructed
    fs::put_obstacle(archive);
    let l2 = match lens {
        Some(l) => l.1,
        None => 1 + sym::below(2) as usize,
    };
    unsafe {
        REC_LEN = l2;
        REC_VAL = 2;
        ROLL_NOW = true;
    }
    let r2 = app.append(&record);
    assert!(r2.is_err(), "C08: the failing append reports an error instead of panicking");
    // the obstruction goes away; the policy no longer asks for a roll
    fs::remove_obstacle(archive);
    unsafe {
        ROLL_NOW = false;
    }
    let l3 = match lens {
        Some(l) => l.2,
        None => 1 + sym::below(2) as usize,
    };
    unsafe {
        REC_LEN = l3;
        REC_VAL = 3;
    }
    let r3 = app.append(&record);
    assert!(r3.is_ok(), "C08: the same appender resumes writing once the obstruction is gone");
    // acknowledged: record 1 and record 3 (record 2's append returned an error: it may or may
    // not be present, whole).  Record 1 must still be there, before record 3.
    match fs::get(active) {
        Some((len, d)) => {
            assert!(len >= l1 + l3, "C08: no acknowledged data is lost");
            for i in 0..l1 {
                assert!(d[i] == 1, "C08: the record acknowledged before the failed rotation is intact");
            }
            let mid = len - l1 - l3;
            assert!(mid == 0 || mid == l2, "C08: the unacknowledged record is absent or whole");
            for i in 0..l3 {
                assert!(d[len - l3 + i] == 3, "C08: the record written after recovery follows");
            }
        }
        None => assert!(false, "C08: the active file exists after recovery"),
    }
    cover!(!append_mode, "truncate mode");
    cover!(append_mode, "append mode");
    if witness {
        assert!(false, "WITNESS");
    }
    std::mem::forget(app);
    std::mem::forget(r2);
    fs::cleanup();
}

harnesses! {
    common {
        #[cfg_attr(kani, kani::stub(std::fs::OpenOptions::append, crate::wfile::stub_oo_append))]
        #[cfg_attr(kani, kani::stub(std::fs::OpenOptions::truncate, crate::wfile::stub_oo_truncate))]
        #[cfg_attr(kani, kani::stub(std::fs::OpenOptions::open, crate::wfile::stub_open))]
        #[cfg_attr(kani, kani::stub(std::fs::File::metadata, crate::wfile::stub_metadata))]
        #[cfg_attr(kani, kani::stub(std::fs::Metadata::len, crate::wfile::stub_metadata_len))]
        #[cfg_attr(kani, kani::stub(<std::fs::File as std::io::Write>::write, crate::wfile::stub_file_write))]
        #[cfg_attr(kani, kani::stub(<std::fs::File as std::io::Write>::flush, crate::wfile::stub_file_flush))]
        #[cfg_attr(kani, kani::stub(<std::fs::File as std::io::Seek>::seek, crate::wfile::stub_file_seek))]
        #[cfg_attr(kani, kani::stub(<std::fs::File as std::io::Seek>::stream_position, crate::wfile::stub_file_stream_position))]
        #[cfg_attr(kani, kani::stub(<std::os::fd::OwnedFd as std::ops::Drop>::drop, crate::wfile::stub_ownedfd_drop))]
        #[cfg_attr(kani, kani::stub(std::fs::create_dir_all, crate::world::fs::stub_create_dir_all))]
        #[cfg_attr(kani, kani::stub(std::fs::rename, crate::world::fs::stub_rename))]
        #[cfg_attr(kani, kani::stub(std::fs::copy, crate::world::fs::stub_copy))]
        #[cfg_attr(kani, kani::stub(std::fs::remove_file, crate::world::fs::stub_remove_file))]
        #[cfg_attr(kani, kani::stub(std::env::var, crate::world::env::stub_var))]
        #[cfg_attr(kani, kani::stub(std::backtrace::Backtrace::capture, crate::util::stub_backtrace_capture))]
        #[cfg_attr(kani, kani::stub(<anyhow::Error as std::ops::Drop>::drop, crate::util::stub_anyhow_drop))]
        #[cfg_attr(kani, kani::stub(<log4rs::encode::pattern::PatternEncoder as log4rs::encode::Encode>::encode, crate::util::stub_pattern_encode_cut))]
        #[cfg_attr(kani, kani::stub(log4rs::encode::pattern::PatternEncoder::new, crate::util::stub_pattern_new_cut))]
    }
    #[kani::unwind(8)]
    #[kani::stub(<anyhow::Error as std::convert::From<std::io::Error>>::from, crate::util::stub_anyhow_from_cut)]
    fn fault_roller_c1() { body_roller(1, false) }
    #[kani::unwind(8)]
    #[kani::stub(<anyhow::Error as std::convert::From<std::io::Error>>::from, crate::util::stub_anyhow_from_cut)]
    fn fault_roller_c1_witness() { body_roller(1, true) }
    #[kani::unwind(8)]
    #[kani::stub(<anyhow::Error as std::convert::From<std::io::Error>>::from, crate::util::stub_anyhow_from_cut)]
    fn fault_roller_c2() { body_roller(2, false) }
    #[kani::unwind(8)]
    #[kani::stub(<anyhow::Error as std::convert::From<std::io::Error>>::from, crate::util::stub_anyhow_from_cut)]
    fn fault_roller_c2_witness() { body_roller(2, true) }
    #[kani::unwind(8)]
    #[kani::stub(<anyhow::Error as std::convert::From<std::io::Error>>::from, crate::util::stub_anyhow_from_cut)]
    fn fault_roller_c3() { body_roller(3, false) }
    #[kani::unwind(10)]
    fn fault_appender_post_sized() { body_appender_sized(false, 0, (2, 1, 2), false) }
    #[kani::unwind(10)]
    fn fault_appender_post_sized_witness() { body_appender_sized(false, 0, (2, 1, 2), true) }
    #[kani::unwind(10)]
    fn fault_appender_post() { body_appender(false, 2, false) }
    #[kani::unwind(10)]
    fn fault_appender_post_witness() { body_appender(false, 2, true) }
    #[kani::unwind(10)]
    fn fault_appender_pre() { body_appender(true, 2, false) }
    #[kani::unwind(10)]
    fn fault_appender_post_known() { body_appender(false, 1, false) }
}
