//! C13 (part): logger-name well-formedness.  Unit under check: the real
//! `config::runtime::check_logger_name` (door-opener `verif_check_logger_name`).
use crate::sym;
use log4rs::config::runtime::verif_check_logger_name;

/// Reference, by maximal runs of colons: the name is non-empty, every maximal run of ':' has
/// length exactly two, and the name does not end with a colon.
fn ref_valid(b: &[u8]) -> bool {
    if b.is_empty() {
        return false;
    }
    let mut i = 0;
    while i < b.len() {
        if b[i] == b':' {
            let mut j = i;
            while j < b.len() && b[j] == b':' {
                j += 1;
            }
            if j - i != 2 || j == b.len() {
                return false;
            }
            i = j;
        } else {
            i += 1;
        }
    }
    true
}

/// `n` free bytes over the alphabet {a, :} (and, with `multibyte`, the 2-byte scalar 'é' as a unit).
pub fn body(maxlen: usize, multibyte: bool, witness: bool) {
    body_prefixed("", maxlen, multibyte, witness)
}

/// A fixed prefix followed by up to `maxlen` free units: reaches longer names with few free bytes.
pub fn body_prefixed(prefix: &'static str, maxlen: usize, multibyte: bool, witness: bool) {
    let mut buf = [0u8; 16];
    let units = sym::below(maxlen as u8 + 1) as usize;
    let mut len = 0usize;
    for &b in prefix.as_bytes() {
        buf[len] = b;
        len += 1;
    }
    let mut u = 0;
    while u < maxlen {
        if u < units {
            let k = sym::below(if multibyte { 3 } else { 2 });
            match k {
                0 => {
                    buf[len] = b'a';
                    len += 1;
                }
                1 => {
                    buf[len] = b':';
                    len += 1;
                }
                _ => {
                    buf[len] = 0xC3;
                    buf[len + 1] = 0xA9;
                    len += 2;
                }
            }
        }
        u += 1;
    }
    // the bytes are valid UTF-8 by construction
    let name = unsafe { std::str::from_utf8_unchecked(&buf[..len]) };
    let got = verif_check_logger_name(name);
    assert!(got == ref_valid(&buf[..len]), "C13: a logger name is accepted exactly when it is well-formed");
    cover!(got && len >= 4, "a well-formed nested name");
    cover!(!got && len >= 3, "an ill-formed name");
    if witness {
        assert!(false, "WITNESS");
    }
}

harnesses! {
    #[kani::unwind(9)]
    fn names_len5() { body(5, false, false) }
    #[kani::unwind(9)]
    fn names_len5_witness() { body(5, false, true) }
    #[kani::unwind(10)]
    fn names_len7() { body(7, false, false) }
    #[kani::unwind(10)]
    fn names_len4_multibyte() { body(4, true, false) }
    #[kani::unwind(10)]
    fn names_colons_plus3() { body_prefixed("::", 3, false, false) }
    #[kani::unwind(10)]
    fn names_a_colons_plus3() { body_prefixed("a::", 3, false, false) }
    #[kani::unwind(10)]
    fn names_ab_colons_plus3() { body_prefixed("ab:", 3, false, false) }
}
