//! Native replay of a solver assignment against the real build.
//! usage: replay <module::harness> <hex>,<hex>,...   (one hex string per drawn scalar, little endian)
//! exit 0 = the harness body ran to its end (no violation), 1 = reproduced (panic / failed assert),
//! 3 = an assumption did not hold or the value queue ran dry (assignment does not fit this body)
#[cfg(kani)]
fn main() {}

#[cfg(not(kani))]
fn main() {
    use std::panic;
    let args: Vec<String> = std::env::args().collect();
    if args.len() < 2 {
        eprintln!("usage: replay <module::harness> [hex,hex,...]");
        std::process::exit(2);
    }
    let name = &args[1];
    let vals: Vec<Vec<u8>> = if args.len() > 2 && !args[2].is_empty() {
        args[2]
            .split(',')
            .map(|h| {
                (0..h.len() / 2)
                    .map(|i| u8::from_str_radix(&h[2 * i..2 * i + 2], 16).unwrap())
                    .collect()
            })
            .collect()
    } else {
        vec![]
    };
    let mut found = None;
    for (m, table) in l4v::tables() {
        for (n, f) in table.iter() {
            if format!("{}::{}", m, n) == *name {
                found = Some(*f);
            }
        }
    }
    let f = match found {
        Some(f) => f,
        None => {
            eprintln!("unknown harness {}", name);
            std::process::exit(2);
        }
    };
    l4v::sym::native::load(vals);
    let r = panic::catch_unwind(f);
    match r {
        Ok(()) => {
            if l4v::sym::native::exhausted() {
                println!("REPLAY: value queue ran dry");
                std::process::exit(3);
            }
            println!("REPLAY: no violation (leftover values: {})", l4v::sym::native::leftover());
            std::process::exit(0);
        }
        Err(e) => {
            if e.downcast_ref::<l4v::sym::native::AssumeViolated>().is_some() {
                println!("REPLAY: assumption violated");
                std::process::exit(3);
            }
            if l4v::sym::native::exhausted() {
                println!("REPLAY: value queue ran dry before the panic");
                std::process::exit(3);
            }
            println!("REPLAY: REPRODUCED");
            std::process::exit(1);
        }
    }
}
