//! Native replay of a solver assignment against the real build.
//! usage: replay <module::harness> <hex>,<hex>,...   (one hex string per drawn scalar, little endian)
//! exit 0 = the harness body ran to its end (no violation), 1 = reproduced (panic / failed assert),
//! 3 = an assumption did not hold or the value queue ran dry (assignment does not fit this body)
#[cfg(kani)]
fn main() {}

#[cfg(not(kani))]
fn main() {
    use std::panic;
    let args: Vec<String> = std::env::args().collect();
    if args.len() < 2 {
        eprintln!("usage: replay <module::harness> [hex,hex,...]");
        std::process::exit(2);
    }
    // development aid (not part of any check): replay --random <n> <seed> <harness> runs the body on
    // n pseudo-random assignments to shake out oracle mistakes natively before the solver is asked
    if args[1] == "--random" {
        let n: u64 = args[2].parse().unwrap();
        let mut seed: u64 = args[3].parse().unwrap();
        let name = &args[4];
        let mut f = None;
        for (m, table) in l4v::tables() {
            for (hn, hf) in table.iter() {
                if format!("{}::{}", m, hn) == *name {
                    f = Some(*hf);
                }
            }
        }
        let f = f.expect("unknown harness");
        std::panic::set_hook(Box::new(|_| {}));
        l4v::sym::native::LENIENT.with(|l| *l.borrow_mut() = true);
        let (mut ran, mut skipped) = (0u64, 0u64);
        for _ in 0..n {
            let mut vals = Vec::new();
            for _ in 0..256 {
                seed ^= seed << 13;
                seed ^= seed >> 7;
                seed ^= seed << 17;
                // small values are the interesting ones for `below(n)` draws
                vals.push(seed.to_le_bytes().to_vec());
            }
            let keep = vals.clone();
            l4v::sym::native::load(vals);
            match std::panic::catch_unwind(f) {
                Ok(()) => ran += 1,
                Err(e) => {
                    if e.downcast_ref::<l4v::sym::native::AssumeViolated>().is_some() {
                        skipped += 1;
                    } else {
                        let _ = &keep;
                        // the values as used (folded draws folded): replayable in strict mode
                        let hex: Vec<String> = l4v::sym::native::used().iter().map(|v| v.iter().map(|b| format!("{:02x}", b)).collect::<String>()).collect();
                        println!("RANDOM: REPRODUCED with {}", hex.join(","));
                        std::process::exit(1);
                    }
                }
            }
        }
        println!("RANDOM: {} bodies ran to the end, {} skipped by assumptions", ran, skipped);
        std::process::exit(0);
    }
    let name = &args[1];
    let vals: Vec<Vec<u8>> = if args.len() > 2 && !args[2].is_empty() {
        args[2]
            .split(',')
            .map(|h| {
                (0..h.len() / 2)
                    .map(|i| u8::from_str_radix(&h[2 * i..2 * i + 2], 16).unwrap())
                    .collect()
            })
            .collect()
    } else {
        vec![]
    };
    let mut found = None;
    for (m, table) in l4v::tables() {
        for (n, f) in table.iter() {
            if format!("{}::{}", m, n) == *name {
                found = Some(*f);
            }
        }
    }
    let f = match found {
        Some(f) => f,
        None => {
            eprintln!("unknown harness {}", name);
            std::process::exit(2);
        }
    };
    l4v::sym::native::load(vals);
    if std::env::var("L4V_LENIENT").is_ok() {
        l4v::sym::native::LENIENT.with(|l| *l.borrow_mut() = true);
    }
    let r = panic::catch_unwind(f);
    match r {
        Ok(()) => {
            if l4v::sym::native::exhausted() {
                println!("REPLAY: value queue ran dry");
                std::process::exit(3);
            }
            println!("REPLAY: no violation (leftover values: {})", l4v::sym::native::leftover());
            std::process::exit(0);
        }
        Err(e) => {
            if e.downcast_ref::<l4v::sym::native::AssumeViolated>().is_some() {
                println!("REPLAY: assumption violated");
                std::process::exit(3);
            }
            if l4v::sym::native::exhausted() {
                println!("REPLAY: value queue ran dry before the panic");
                std::process::exit(3);
            }
            println!("REPLAY: REPRODUCED");
            std::process::exit(1);
        }
    }
}
