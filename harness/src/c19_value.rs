//! C19 (value half): substitution is literal and single-pass for EVERY value - whatever the
//! value of a set variable contains (`$`, `ENV{`, `}`, names of other variables ..), it is
//! inserted as it is and never expanded again; unset variables and everything else stay.
//! Unit under check: the real `append::env_util::expand_env_vars` (door-opener
//! `verif_expand_env_vars`).  Instance parameters: the path text, which variables are set and the
//! LENGTH of each value (so that every copy has a constant size - copies of symbolic size are
//! what exhausted memory for c19_env, DESIGN.md 9.6); solver variables: every byte of every value.
use crate::sym;
use log4rs::append::verif_expand_env_vars;

pub const VMAX: usize = 8;
pub struct SVar {
    pub name: &'static str,
    pub set: bool,
    pub len: usize,
}
static mut NVARS: usize = 0;
static mut NAMES: [&'static str; 3] = [""; 3];
static mut SET: [bool; 3] = [false; 3];
static mut LENS: [usize; 3] = [0; 3];
static mut VALS: [[u8; VMAX]; 3] = [[0; VMAX]; 3];

const ALPHABET: [u8; 8] = [b'$', b'E', b'N', b'V', b'{', b'}', b'B', b'z'];

fn lookup(k: &[u8]) -> Result<String, std::env::VarError> {
    unsafe {
        let mut i = 0;
        while i < NVARS {
            let n = NAMES[i].as_bytes();
            if n.len() == k.len() {
                let mut same = true;
                let mut j = 0;
                while j < n.len() {
                    if n[j] != k[j] {
                        same = false;
                    }
                    j += 1;
                }
                if same {
                    if !SET[i] {
                        return Err(std::env::VarError::NotPresent);
                    }
                    let v: Vec<u8> = VALS[i][..LENS[i]].to_vec();
                    return Ok(String::from_utf8_unchecked(v));
                }
            }
            i += 1;
        }
    }
    Err(std::env::VarError::NotPresent)
}

#[cfg(kani)]
pub fn stub_var<K: AsRef<std::ffi::OsStr>>(key: K) -> Result<String, std::env::VarError> {
    lookup(key.as_ref().as_encoded_bytes())
}

/// `parts`: the path as alternating literal text and references: (literal, Some(index of the
/// variable referenced right after it)) ...; the reference oracle is the concatenation below.
pub fn body(parts: &'static [(&'static str, Option<usize>)], vars: &'static [SVar], witness: bool) {
    unsafe {
        NVARS = vars.len();
        for (i, v) in vars.iter().enumerate() {
            NAMES[i] = v.name;
            SET[i] = v.set;
            LENS[i] = v.len;
            let mut j = 0;
            while j < v.len {
                VALS[i][j] = ALPHABET[sym::below(ALPHABET.len() as u8) as usize];
                j += 1;
            }
        }
    }
    // the path text and the expected result, both with constant lengths
    let mut text = [0u8; 64];
    let mut tl = 0;
    let mut exp = [0u8; 64];
    let mut el = 0;
    for &(lit, r) in parts {
        for &x in lit.as_bytes() {
            text[tl] = x;
            tl += 1;
            exp[el] = x;
            el += 1;
        }
        if let Some(v) = r {
            let mut refb = [0u8; 16];
            let mut rl = 0;
            for &x in b"$ENV{" {
                refb[rl] = x;
                rl += 1;
            }
            for &x in vars[v].name.as_bytes() {
                refb[rl] = x;
                rl += 1;
            }
            refb[rl] = b'}';
            rl += 1;
            for j in 0..rl {
                text[tl] = refb[j];
                tl += 1;
            }
            if vars[v].set {
                for j in 0..vars[v].len {
                    exp[el] = unsafe { VALS[v][j] };
                    el += 1;
                }
            } else {
                for j in 0..rl {
                    exp[el] = refb[j];
                    el += 1;
                }
            }
        }
    }
    #[cfg(not(kani))]
    unsafe {
        for i in 0..NVARS {
            if SET[i] {
                std::env::set_var(NAMES[i], std::str::from_utf8(&VALS[i][..LENS[i]]).unwrap());
            } else {
                std::env::remove_var(NAMES[i]);
            }
        }
    }
    let path = unsafe { std::str::from_utf8_unchecked(&text[..tl]) };
    let got = verif_expand_env_vars(path);
    let g = got.as_bytes();
    assert!(g.len() == el, "C19: values are inserted as they are, everything else is unchanged (length)");
    let mut i = 0;
    while i < 64 {
        if i < el {
            assert!(g[i] == exp[i], "C19: values are inserted as they are (no second expansion), everything else is unchanged");
        }
        i += 1;
    }
    std::mem::forget(got);
    let mut has_dollar = false;
    let mut any_value = false;
    for (i, v) in vars.iter().enumerate() {
        if v.set && v.len > 0 {
            any_value = true;
            for j in 0..v.len {
                if unsafe { VALS[i][j] } == b'$' {
                    has_dollar = true;
                }
            }
        }
    }
    cover!(!any_value || has_dollar, "a value that contains a '$'");
    if witness {
        assert!(false, "WITNESS");
    }
}

// "x$" + $ENV{A} + $ENV{B} + "y": a value of A can complete a look-alike with the '$' before it
static P_TRICKY: [(&str, Option<usize>); 3] = [("x$", Some(0)), ("", Some(1)), ("y", None)];
static V_BOTH_SET: [SVar; 2] = [SVar { name: "A", set: true, len: 6 }, SVar { name: "B", set: true, len: 1 }];
static V_B_UNSET: [SVar; 2] = [SVar { name: "A", set: true, len: 6 }, SVar { name: "B", set: false, len: 0 }];
static V_A_UNSET_B_SET: [SVar; 2] = [SVar { name: "A", set: false, len: 0 }, SVar { name: "B", set: true, len: 4 }];
// "/a/" + $ENV{A} + "/b"
static P_SIMPLE: [(&str, Option<usize>); 2] = [("/a/", Some(0)), ("/b", None)];
static V_A3: [SVar; 1] = [SVar { name: "A", set: true, len: 3 }];
static V_A0: [SVar; 1] = [SVar { name: "A", set: true, len: 0 }];
static V_A2: [SVar; 1] = [SVar { name: "A", set: true, len: 2 }];
static V_A_UNSET: [SVar; 1] = [SVar { name: "A", set: false, len: 0 }];
// $ENV{A} twice
static P_TWICE: [(&str, Option<usize>); 3] = [("", Some(0)), ("-", Some(0)), ("", None)];
// names with '.', '_', digits; a non-ASCII name
static P_DOTTED: [(&str, Option<usize>); 2] = [("/", Some(0)), (".log", None)];
static V_DOTTED: [SVar; 1] = [SVar { name: "A.b_1", set: true, len: 2 }];
static V_UNI: [SVar; 1] = [SVar { name: "\u{e9}", set: true, len: 2 }];
// text that only looks like a reference stays (the variable A is set, so a wrong match would show)
static P_UNTERMINATED: [(&str, Option<usize>); 1] = [("/a/$ENV{A", None)];
static P_EMPTY_NAME: [(&str, Option<usize>); 2] = [("$ENV{}", Some(0)), ("", None)];
static P_BAD_FIRST: [(&str, Option<usize>); 2] = [("$ENV{-A}$ENV{.A}", Some(0)), ("", None)];
static P_BAD_INNER: [(&str, Option<usize>); 2] = [("$ENV{A-}", Some(0)), ("", None)];
static P_STRAY: [(&str, Option<usize>); 2] = [("$${}}$ENV${A}", Some(0)), ("$", None)];
// a reference at the very start of the path (nothing copied before the first substitution)
static P_LEAD: [(&str, Option<usize>); 2] = [("", Some(0)), ("/b", None)];
static P_LEAD2: [(&str, Option<usize>); 4] = [("", Some(0)), ("", Some(0)), ("x/", Some(1)), ("", None)];
static V_A0_B_UNSET: [SVar; 2] = [SVar { name: "A", set: true, len: 0 }, SVar { name: "B", set: false, len: 0 }];
static P_ONLY: [(&str, Option<usize>); 2] = [("", Some(0)), ("", None)];
// $ENV{$ENV{A}}: the inner reference is replaced, the result is not expanded again
static P_NESTED: [(&str, Option<usize>); 2] = [("$ENV{", Some(0)), ("}", None)];

harnesses! {
    common {
        #[cfg_attr(kani, kani::stub(std::env::var, crate::c19_value::stub_var))]
        #[cfg_attr(kani, kani::stub(core::unicode::unicode_data::alphabetic::lookup, crate::c11_parse::stub_alphabetic))]
        #[cfg_attr(kani, kani::stub(core::unicode::unicode_data::n::lookup, crate::c11_parse::stub_numeric))]
    }
    #[kani::unwind(20)]
    fn value_simple3() { body(&P_SIMPLE, &V_A3, false) }
    #[kani::unwind(20)]
    fn value_simple3_witness() { body(&P_SIMPLE, &V_A3, true) }
    #[kani::unwind(20)]
    fn value_empty() { body(&P_SIMPLE, &V_A0, false) }
    #[kani::unwind(20)]
    fn value_unset() { body(&P_SIMPLE, &V_A_UNSET, false) }
    #[kani::unwind(24)]
    fn value_twice3() { body(&P_TWICE, &V_A3, false) }
    #[kani::unwind(24)]
    fn value_tricky_both_set() { body(&P_TRICKY, &V_BOTH_SET, false) }
    #[kani::unwind(24)]
    fn value_tricky_b_unset() { body(&P_TRICKY, &V_B_UNSET, false) }
    #[kani::unwind(24)]
    fn value_tricky_a_unset() { body(&P_TRICKY, &V_A_UNSET_B_SET, false) }
    #[kani::unwind(24)]
    fn value_dotted_name() { body(&P_DOTTED, &V_DOTTED, false) }
    #[kani::unwind(24)]
    fn value_unicode_name() { body(&P_DOTTED, &V_UNI, false) }
    #[kani::unwind(24)]
    fn value_unterminated() { body(&P_UNTERMINATED, &V_A2, false) }
    #[kani::unwind(24)]
    fn value_empty_name() { body(&P_EMPTY_NAME, &V_A2, false) }
    #[kani::unwind(30)]
    fn value_bad_first() { body(&P_BAD_FIRST, &V_A2, false) }
    #[kani::unwind(24)]
    fn value_bad_inner() { body(&P_BAD_INNER, &V_A2, false) }
    #[kani::unwind(30)]
    fn value_stray() { body(&P_STRAY, &V_A2, false) }
    #[kani::unwind(24)]
    fn value_lead_empty() { body(&P_LEAD, &V_A0, false) }
    #[kani::unwind(24)]
    fn value_lead3() { body(&P_LEAD, &V_A3, false) }
    #[kani::unwind(30)]
    fn value_lead_empty_twice_then_unset() { body(&P_LEAD2, &V_A0_B_UNSET, false) }
    #[kani::unwind(24)]
    fn value_only_empty() { body(&P_ONLY, &V_A0, false) }
    #[kani::unwind(24)]
    fn value_nested() { body(&P_NESTED, &V_A3, false) }
    #[kani::unwind(24)]
    fn value_nested_unset() { body(&P_NESTED, &V_A_UNSET, false) }
}
