//! C04: file appender - acknowledged records are visible, whole, ordered; append mode keeps
//! pre-existing content, truncate mode discards it at open time only.
//! Unit under check: the real `FileAppenderBuilder::build`, `FileAppender::append`,
//! `SimpleWriter`, std's `BufWriter<File>` (executed for real) over E3 (mutex model) and
//! E4 (model disk / real directory natively).  The encoder is a harness `Encode` that issues
//! one or two `write_all` calls per record.
use crate::sym;
use crate::world::fs;
use log::Record;
use log4rs::append::file::FileAppender;
use log4rs::append::Append;
use log4rs::encode::{Encode, Write};

pub const MAXREC: usize = 4;

static mut REC_LEN: usize = 0;
static mut REC_VAL: u8 = 0;
static mut TWO_CHUNKS: bool = false;

#[derive(Debug)]
struct HEnc;
impl Encode for HEnc {
    fn encode(&self, w: &mut dyn Write, _r: &Record) -> anyhow::Result<()> {
        let (len, val, two) = unsafe { (REC_LEN, REC_VAL, TWO_CHUNKS) };
        let buf = [val; MAXREC];
        if two && len >= 2 {
            if w.write_all(&buf[..1]).is_err() || w.write_all(&buf[1..len]).is_err() {
                // a failing write is outside this (fault-free) harness; constructing an anyhow error here
            // would put anyhow's error objects among the candidates of every io::Error drop
            crate::sym::cut();
            }
        } else if w.write_all(&buf[..len]).is_err() {
            // a failing write is outside this (fault-free) harness; constructing an anyhow error here
            // would put anyhow's error objects among the candidates of every io::Error drop
            crate::sym::cut();
        }
        Ok(())
    }
}

/// `nrec` appends; `pre`: up to this many pre-existing bytes (symbolic count).
pub fn body(nrec: usize, pre_max: usize, witness: bool) {
    fs::reset();
    #[cfg(kani)]
    crate::wfile::reset();
    let f = fs::add_name("f.log", 0);
    let other = fs::add_name("g.log", 0);
    fs::put(other, &[0x77]);
    let pre = sym::below(pre_max as u8 + 1) as usize;
    let exists = pre > 0 || sym::any_bool();
    let pre_bytes = [0xA1u8, 0xA2, 0xA3];
    if exists {
        fs::put(f, &pre_bytes[..pre]);
    }
    let append_mode = sym::any_bool();
    let path = fs::path(f);
    let app = match FileAppender::builder().encoder(Box::new(HEnc)).append(append_mode).build(&path) {
        Ok(a) => a,
        Err(_) => panic!("build failed on a fault-free disk"),
    };
    // expected content so far
    let mut exp = [0u8; fs::CAP];
    let mut n = 0;
    if append_mode && exists {
        for i in 0..pre {
            exp[n] = pre_bytes[i];
            n += 1;
        }
    }
    check(f, &exp, n);
    let record = Record::builder().build();
    let mut any_empty = false;
    for k in 0..nrec {
        let len = sym::below(MAXREC as u8 + 1) as usize;
        unsafe {
            REC_LEN = len;
            REC_VAL = 1 + k as u8;
            TWO_CHUNKS = sym::any_bool();
        }
        if len == 0 {
            any_empty = true;
        }
        let res = app.append(&record);
        assert!(res.is_ok(), "append succeeds on a fault-free disk");
        for _ in 0..len {
            exp[n] = 1 + k as u8;
            n += 1;
        }
        // observed after every single call: the complete record is readable from the file
        check(f, &exp, n);
    }
    match fs::get(other) {
        Some((1, d)) => assert!(d[0] == 0x77, "other files untouched"),
        _ => assert!(false, "other files untouched"),
    }
    cover!(append_mode && pre > 0 && n > pre, "append mode over existing content, at least one non-empty record");
    cover!(!append_mode && pre > 0, "truncate mode discards existing content at open");
    cover!(any_empty, "an empty record");
    if witness {
        assert!(false, "WITNESS");
    }
    std::mem::forget(app);
    fs::cleanup();
}

/// Constant-size variant (DESIGN.md 9.8, rule 23): the number of appends, every record's length,
/// its split into one or two `write_all` calls and the amount of pre-existing content are instance
/// parameters; solver variables: the open mode (append / truncate), whether the file exists when
/// there is no content, and every byte of every record.
pub fn body_sized(lens: &'static [usize], two: bool, pre: usize, witness: bool) {
    fs::reset();
    #[cfg(kani)]
    crate::wfile::reset();
    let f = fs::add_name("f.log", 0);
    let exists = pre > 0 || sym::any_bool();
    let pre_bytes = [0xA1u8, 0xA2, 0xA3];
    if exists {
        fs::put(f, &pre_bytes[..pre]);
    }
    let append_mode = sym::any_bool();
    let path = fs::path(f);
    let app = match FileAppender::builder().encoder(Box::new(HEnc)).append(append_mode).build(&path) {
        Ok(a) => a,
        Err(_) => panic!("build failed on a fault-free disk"),
    };
    let mut exp = [0u8; fs::CAP];
    let mut n = 0;
    if append_mode && exists {
        for i in 0..pre {
            exp[n] = pre_bytes[i];
            n += 1;
        }
    }
    check(f, &exp, n);
    let record = Record::builder().build();
    for k in 0..lens.len() {
        let len = lens[k];
        let val = sym::any_u8();
        unsafe {
            REC_LEN = len;
            REC_VAL = val;
            TWO_CHUNKS = two;
        }
        let res = app.append(&record);
        assert!(res.is_ok(), "append succeeds on a fault-free disk");
        for _ in 0..len {
            exp[n] = val;
            n += 1;
        }
        check(f, &exp, n);
    }
    cover!(append_mode || pre == 0, "append mode");
    cover!(!append_mode || pre == 0, "truncate mode");
    if witness {
        assert!(false, "WITNESS");
    }
    std::mem::forget(app);
    fs::cleanup();
}

fn check(slot: usize, exp: &[u8; fs::CAP], n: usize) {
    match fs::get(slot) {
        Some((len, data)) => {
            assert!(len == n, "C04: the file is exactly the concatenation of the acknowledged records (length)");
            let mut i = 0;
            while i < fs::CAP {
                if i < n {
                    assert!(data[i] == exp[i], "C04: the file is exactly the concatenation of the acknowledged records, in order");
                }
                i += 1;
            }
        }
        None => assert!(false, "C04: the log file exists after build"),
    }
}

harnesses! {
    common {
        #[cfg_attr(kani, kani::stub(std::fs::OpenOptions::append, crate::wfile::stub_oo_append))]
        #[cfg_attr(kani, kani::stub(std::fs::OpenOptions::truncate, crate::wfile::stub_oo_truncate))]
        #[cfg_attr(kani, kani::stub(std::fs::OpenOptions::open, crate::wfile::stub_open))]
        #[cfg_attr(kani, kani::stub(std::fs::File::metadata, crate::wfile::stub_metadata))]
        #[cfg_attr(kani, kani::stub(std::fs::Metadata::len, crate::wfile::stub_metadata_len))]
        #[cfg_attr(kani, kani::stub(<std::fs::File as std::io::Write>::write, crate::wfile::stub_file_write))]
        #[cfg_attr(kani, kani::stub(<std::fs::File as std::io::Write>::flush, crate::wfile::stub_file_flush))]
        #[cfg_attr(kani, kani::stub(<std::fs::File as std::io::Seek>::seek, crate::wfile::stub_file_seek))]
        #[cfg_attr(kani, kani::stub(<std::fs::File as std::io::Seek>::stream_position, crate::wfile::stub_file_stream_position))]
        #[cfg_attr(kani, kani::stub(<std::os::fd::OwnedFd as std::ops::Drop>::drop, crate::wfile::stub_ownedfd_drop))]
        #[cfg_attr(kani, kani::stub(std::fs::create_dir_all, crate::world::fs::stub_create_dir_all))]
        #[cfg_attr(kani, kani::stub(std::env::var, crate::world::env::stub_var))]
        #[cfg_attr(kani, kani::stub(std::backtrace::Backtrace::capture, crate::util::stub_backtrace_capture))]
        #[cfg_attr(kani, kani::stub(<anyhow::Error as std::ops::Drop>::drop, crate::util::stub_anyhow_drop))]
        #[cfg_attr(kani, kani::stub(<anyhow::Error as std::convert::From<std::io::Error>>::from, crate::util::stub_anyhow_from_cut))]
        #[cfg_attr(kani, kani::stub(<log4rs::encode::pattern::PatternEncoder as log4rs::encode::Encode>::encode, crate::util::stub_pattern_encode_cut))]
        #[cfg_attr(kani, kani::stub(log4rs::encode::pattern::PatternEncoder::new, crate::util::stub_pattern_new_cut))]
    }
    #[kani::unwind(10)]
    fn sized_3_pre2() { body_sized(&[3], false, 2, false) }
    #[kani::unwind(10)]
    fn sized_3_pre2_witness() { body_sized(&[3], false, 2, true) }
    #[kani::unwind(10)]
    fn sized_2_0_1_pre0() { body_sized(&[2, 0, 1], true, 0, false) }
    #[kani::unwind(10)]
    fn sized_4_4_pre3() { body_sized(&[4, 4], true, 3, false) }
    #[kani::unwind(10)]
    fn sized_1_1_1_1_pre1() { body_sized(&[1, 1, 1, 1], false, 1, false) }
    #[kani::unwind(10)]
    fn sized_0_pre0() { body_sized(&[0], false, 0, false) }
    #[kani::unwind(10)]
    fn file_1rec() { body(1, 2, false) }
    #[kani::unwind(10)]
    fn file_1rec_witness() { body(1, 2, true) }
    #[kani::unwind(10)]
    fn file_2rec() { body(2, 2, false) }
    #[kani::unwind(10)]
    fn file_3rec() { body(3, 3, false) }
}
