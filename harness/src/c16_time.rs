//! C16: the time trigger schedules the right boundary, fires once per boundary, never panics.
//! Unit under check: the real `TimeTrigger::get_next_time` (with chrono's calendar
//! arithmetic executed for real), `TimeTrigger::{new, trigger}`.
//!
//! E5: under Kani the system zone is a model built from the *real* transition
//! instants of a table of zones (taken from the tz database for the table year);
//! natively the harness sets `TZ=<zone>` and chrono reads the real tz database.
//! The symbolic instant is kept inside the table year so that model and
//! database agree.
use crate::sym;
use chrono::{DateTime, Local, NaiveDateTime, TimeZone, Utc};
use log4rs::append::rolling_file::policy::compound::trigger::time::{
    TimeTrigger, TimeTriggerConfig, TimeTriggerInterval,
};

#[derive(Clone, Copy)]
pub struct Zone {
    pub name: &'static str,
    /// offset (seconds east) before `t1` and from `t2` on
    pub off_a: i64,
    /// offset in [t1, t2)
    pub off_b: i64,
    pub t1: i64,
    pub t2: i64,
    /// the model equals the tz database for UTC instants in [lo, hi)
    pub lo: i64,
    pub hi: i64,
    /// days since 1970-01-01 of January 1st of the table year
    pub jan1_days: i64,
    pub year_len: i64,
}

// 2024-01-01 = day 19723 ; 2018-01-01 = day 17532
pub const UTC0: Zone = Zone { name: "UTC", off_a: 0, off_b: 0, t1: 0, t2: 0, lo: 1704067200 - 86400, hi: 1735689600 + 86400, jan1_days: 19723, year_len: 366 };
pub const KOLKATA: Zone = Zone { name: "Asia/Kolkata", off_a: 19800, off_b: 19800, t1: 0, t2: 0, lo: 1704067200 - 86400, hi: 1735689600 + 86400, jan1_days: 19723, year_len: 366 };
pub const NEW_YORK: Zone = Zone { name: "America/New_York", off_a: -18000, off_b: -14400, t1: 1710054000, t2: 1730613600, lo: 1704067200, hi: 1735689600 + 86400, jan1_days: 19723, year_len: 366 };
pub const BERLIN: Zone = Zone { name: "Europe/Berlin", off_a: 3600, off_b: 7200, t1: 1711846800, t2: 1729990800, lo: 1704067200 - 86400, hi: 1735689600 + 86400, jan1_days: 19723, year_len: 366 };
pub const LORD_HOWE: Zone = Zone { name: "Australia/Lord_Howe", off_a: 39600, off_b: 37800, t1: 1712415600, t2: 1728142200, lo: 1704067200 - 86400, hi: 1735689600, jan1_days: 19723, year_len: 366 };
pub const SAO_PAULO: Zone = Zone { name: "America/Sao_Paulo", off_a: -7200, off_b: -10800, t1: 1518919200, t2: 1541300400, lo: 1514764800, hi: 1546300800, jan1_days: 17532, year_len: 365 };
pub const HAVANA: Zone = Zone { name: "America/Havana", off_a: -18000, off_b: -14400, t1: 1710046800, t2: 1730610000, lo: 1704067200, hi: 1735689600 + 86400, jan1_days: 19723, year_len: 366 };

pub static mut ZONE: Zone = UTC0;
pub static mut NOW: (i64, u32) = (0, 0);

fn zone() -> Zone {
    unsafe { ZONE }
}

pub fn offset_at_utc(z: &Zone, u: i64) -> i64 {
    if z.t1 != z.t2 && u >= z.t1 && u < z.t2 {
        z.off_b
    } else {
        z.off_a
    }
}

/// Install the zone (model under Kani, `TZ` natively) and the current instant.
pub fn install(z: Zone, now_secs: i64, nanos: u32) {
    unsafe {
        ZONE = z;
        NOW = (now_secs, nanos);
        log4rs::verif_hooks::CLOCK = Some((now_secs, nanos));
    }
    #[cfg(not(kani))]
    std::env::set_var("TZ", z.name);
}

pub fn set_now(now_secs: i64, nanos: u32) {
    unsafe {
        NOW = (now_secs, nanos);
        log4rs::verif_hooks::CLOCK = Some((now_secs, nanos));
    }
}

// ---- stubs -----------------------------------------------------------------------------
#[cfg(kani)]
pub fn stub_offset_from_utc(_l: &Local, utc: &NaiveDateTime) -> chrono::FixedOffset {
    let u = utc.and_utc().timestamp();
    chrono::FixedOffset::east_opt(offset_at_utc(&zone(), u) as i32).unwrap()
}

/// How chrono 0.4 (`TimeZoneRef::find_local_time_type_from_local`) maps a local wall-clock
/// second in a zone with the two transitions t1 (a -> b) and t2 (b -> a): both ends of an
/// overlap are ambiguous, the first skipped second still maps to the old offset and the first
/// second after a gap to the new one.  Returns (kind, offset, other offset) with kind
/// 0 = single, 1 = ambiguous, 2 = none.
pub fn local_kind(z: &Zone, l: i64) -> (u8, i64, i64) {
    if z.t1 == z.t2 {
        return (0, z.off_a, z.off_a);
    }
    let mut prev = z.off_a;
    let trans = [(z.t1, z.off_b), (z.t2, z.off_a)];
    let mut i = 0;
    while i < 2 {
        let (t, after) = trans[i];
        let end = t + after;
        let start = t + prev;
        if start > end {
            if l < end {
                return (0, prev, prev);
            } else if l <= start {
                return (1, prev, after);
            }
        } else if start < end {
            if l <= start {
                return (0, prev, prev);
            } else if l < end {
                return (2, prev, after);
            } else if l == end {
                return (0, after, after);
            }
        }
        prev = after;
        i += 1;
    }
    (0, prev, prev)
}

#[cfg(kani)]
pub fn stub_offset_from_local(_l: &Local, local: &NaiveDateTime) -> chrono::MappedLocalTime<chrono::FixedOffset> {
    let z = zone();
    let l = local.and_utc().timestamp();
    let (kind, o1, o2) = local_kind(&z, l);
    let f1 = chrono::FixedOffset::east_opt(o1 as i32).unwrap();
    let f2 = chrono::FixedOffset::east_opt(o2 as i32).unwrap();
    match kind {
        0 => chrono::MappedLocalTime::Single(f1),
        1 => {
            if o1 < o2 {
                chrono::MappedLocalTime::Ambiguous(f1, f2)
            } else {
                chrono::MappedLocalTime::Ambiguous(f2, f1)
            }
        }
        _ => chrono::MappedLocalTime::None,
    }
}

/// E9: the random delay is outside the claim (max_random_delay == 0 in every harness); the
/// thread-local RNG cannot be compiled by Kani, so reaching it is cut.
#[cfg(kani)]
pub fn stub_thread_rng() -> rand::rngs::ThreadRng {
    crate::sym::cut()
}

#[cfg(kani)]
pub fn stub_utc_now() -> DateTime<Utc> {
    let (s, n) = unsafe { NOW };
    Utc.timestamp_opt(s, n).unwrap()
}

#[cfg(kani)]
pub fn stub_local_now() -> DateTime<Local> {
    let (s, n) = unsafe { NOW };
    Utc.timestamp_opt(s, n).unwrap().with_timezone(&Local)
}

// ---- reference ---------------------------------------------------------------------------

#[derive(Clone, Copy, PartialEq)]
pub enum Unit {
    Second,
    Minute,
    Hour,
    Day,
    /// plain (unmodulated) only
    Week,
    /// plain only; the result must stay inside the table year
    Month,
    /// plain only
    Year,
}

fn unit_secs(u: Unit) -> i64 {
    match u {
        Unit::Second => 1,
        Unit::Minute => 60,
        Unit::Hour => 3600,
        Unit::Day => 86400,
        // calendar units: handled by start_of_unit / expected_local
        Unit::Week => 7 * 86400,
        Unit::Month | Unit::Year => 0,
    }
}

/// cumulative days before each month of the table year (index 12 = length of the year)
fn cum_days(z: &Zone) -> [i64; 13] {
    if z.year_len == 366 {
        [0, 31, 60, 91, 121, 152, 182, 213, 244, 274, 305, 335, 366]
    } else {
        [0, 31, 59, 90, 120, 151, 181, 212, 243, 273, 304, 334, 365]
    }
}

/// month index 0..11 of the local day-of-year `ord0`
fn month0_of(z: &Zone, ord0: i64) -> usize {
    let c = cum_days(z);
    let mut m = 0;
    while m < 11 && ord0 >= c[m + 1] {
        m += 1;
    }
    m
}

/// local wall-clock second at which the current unit started
fn start_of_unit(z: &Zone, l: i64, u: Unit) -> i64 {
    let day = l.div_euclid(86400);
    match u {
        Unit::Week => {
            // 1970-01-01 was a Thursday: Monday = 0
            let weekday = (day + 3).rem_euclid(7);
            (day - weekday) * 86400
        }
        Unit::Month => {
            let ord0 = day - z.jan1_days;
            (z.jan1_days + cum_days(z)[month0_of(z, ord0)]) * 86400
        }
        Unit::Year => z.jan1_days * 86400,
        _ => l - l.rem_euclid(unit_secs(u)),
    }
}

fn interval(u: Unit, n: i64) -> TimeTriggerInterval {
    match u {
        Unit::Second => TimeTriggerInterval::Second(n),
        Unit::Minute => TimeTriggerInterval::Minute(n),
        Unit::Hour => TimeTriggerInterval::Hour(n),
        Unit::Day => TimeTriggerInterval::Day(n),
        Unit::Week => TimeTriggerInterval::Week(n),
        Unit::Month => TimeTriggerInterval::Month(n),
        Unit::Year => TimeTriggerInterval::Year(n),
    }
}

/// Expected local wall-clock second (seconds since the epoch read as local time) of the next
/// roll, from the local wall-clock second `l` of now.  Pure integer arithmetic.
fn expected_local(z: &Zone, l: i64, u: Unit, n: i64, modulate: bool) -> i64 {
    match u {
        Unit::Week => {
            let start = start_of_unit(z, l, u);
            if !modulate {
                return start + n * 7 * 86400;
            }
            // ISO week index (0-based).  Both table years start on a Monday, so inside the table
            // year the ISO week is ord0 / 7, except that a week whose Thursday falls into the next
            // year is week 1 (index 0) of that year.
            assert!((z.jan1_days + 3).rem_euclid(7) == 0, "table year starts on a Monday");
            let monday_ord0 = start.div_euclid(86400) - z.jan1_days;
            let week0 = if monday_ord0 + 3 >= z.year_len { 0 } else { monday_ord0 / 7 };
            return start + (n - week0 % n) * 7 * 86400;
        }
        Unit::Month => {
            let ord0 = l.div_euclid(86400) - z.jan1_days;
            let m = month0_of(z, ord0) as i64 + n;
            // callers keep m <= 12 (12 = January 1st of the next year)
            return (z.jan1_days + cum_days(z)[m as usize]) * 86400;
        }
        Unit::Year => {
            // lengths of the table year and the two following years
            let lens: [i64; 3] = if z.jan1_days == 19723 { [366, 365, 365] } else { [365, 365, 366] };
            let mut days = 0;
            let mut k = 0;
            while k < n {
                days += lens[k as usize];
                k += 1;
            }
            return (z.jan1_days + days) * 86400;
        }
        _ => {}
    }
    let us = unit_secs(u);
    let start = l - l.rem_euclid(us);
    if !modulate {
        return start + n * us;
    }
    // index of the current unit inside its enclosing period and the period's start
    let (period_start, idx) = match u {
        Unit::Second => (l - l.rem_euclid(60), l.rem_euclid(60)),
        Unit::Minute => (l - l.rem_euclid(3600), l.rem_euclid(3600) / 60),
        Unit::Hour => (l - l.rem_euclid(86400), l.rem_euclid(86400) / 3600),
        Unit::Day => {
            let day = l.div_euclid(86400);
            (z.jan1_days * 86400, day - z.jan1_days)
        }
        // calendar units are handled above (plain only)
        _ => (0, 0),
    };
    period_start + (idx / n + 1) * n * us
}

/// `window`: None = the whole table year; Some((centre, radius)) = instants around `centre`.
/// `nsel`: > 0 = the multiplier ranges over 1..=nsel (solver variable); < 0 = fixed multiplier -nsel.
pub fn body_next(z: Zone, u: Unit, modulate: bool, nsel: i64, window: Option<(i64, i64)>, allow_known: bool, witness: bool) {
    let n = if nsel > 0 { 1 + sym::below(nsel as u8) as i64 } else { -nsel };
    let now = match window {
        None => z.lo + sym::below_u32((z.hi - z.lo) as u32) as i64,
        Some((c, r)) => c - r + sym::below_u32((2 * r) as u32) as i64,
    };
    sym::assume(now >= z.lo && now < z.hi);
    let off_now = offset_at_utc(&z, now);
    let l = now + off_now;
    // keep the local date inside the table year (day-of-year reference)
    sym::assume(l >= z.jan1_days * 86400 && l < (z.jan1_days + z.year_len) * 86400);
    let _ = allow_known;
    install(z, now, 0);

    let current = Utc.timestamp_opt(now, 0).unwrap().with_timezone(&Local);
    let next = TimeTrigger::verif_get_next_time(current, interval(u, n), modulate);
    let next_utc = next.timestamp();

    #[cfg(not(kani))]
    if next_utc <= now {
        eprintln!("zone={} now={} l={} n={} modulate={} next_utc={}", z.name, now, l, n, modulate, next_utc);
    }
    assert!(next_utc > now, "C16: the next roll lies strictly after the current instant");
    // "wherever the zone's UTC offset does not change in between": read as "no offset change
    // between the start of the current unit and the next boundary" (the two clauses of the
    // statement - "on a unit boundary in local time" and "exactly n units after the start of the
    // current unit" - only agree under that reading; see DESIGN.md, C16).
    let start_utc = start_of_unit(&z, l, u) - off_now;
    let crosses = |a: i64, b: i64| z.t1 != z.t2 && ((a < z.t1 && b >= z.t1) || (a < z.t2 && b >= z.t2));
    let month_ok = u != Unit::Month || month0_of(&z, l.div_euclid(86400) - z.jan1_days) as i64 + n <= 12;
    // Whether the boundary clause applies is decided from the EXPECTED boundary, never from the
    // implementation's answer (a wrong answer that happened to fall outside the zone table, e.g. a
    // year late, used to switch the assertion off - found by a seeded change, DESIGN.md 9.5).
    let exp = if month_ok { expected_local(&z, l, u, n, modulate) } else { l };
    let exp_utc = exp - off_now;
    let no_change_exp = !crosses(now, exp_utc) && offset_at_utc(&z, start_utc) == off_now && !crosses(start_utc, now);
    let no_change = !crosses(now, next_utc) && offset_at_utc(&z, start_utc) == off_now && !crosses(start_utc, now);
    // the zone model is only valid up to z.hi, except that January 1st of a later year lies in the
    // zone's "a" regime for every table zone (checked with the tz database by the native twin)
    // (a fixed-offset zone's model is exact for every instant: used by the modulated Week instance,
    // whose expected boundary can lie up to n weeks past the year end)
    let in_model = exp_utc < z.hi || u == Unit::Year || (u == Unit::Week && modulate && z.t1 == z.t2);
    if no_change_exp && in_model && month_ok {
        #[cfg(not(kani))]
        if next_utc + off_now != exp {
            eprintln!("now={} l={} n={} next_utc={} exp_local={} got_local={}", now, l, n, next_utc, exp, next_utc + off_now);
        }
        assert!(next_utc + off_now == exp, "C16: next roll falls on the unit boundary in local time");
    }
    // for the Year unit in a zone with transitions the span always contains one: only reachability
    let w1 = if u == Unit::Year && z.t1 != z.t2 { next_utc > now } else { no_change && (!modulate || n > 1 || nsel == 1) };
    let w2 = if z.t1 != z.t2 { !no_change } else if unit_secs(u) > 0 { next_utc - now == n * unit_secs(u) } else { now == start_utc };
    cover!(w1, "boundary checked without an offset change in between (multiplier > 1 when modulated)");
    cover!(w2, "an offset change lies between the unit start and the next roll (DST zones) / now sits exactly on a boundary (fixed-offset zones)");
    if witness {
        assert!(false, "WITNESS");
    }
}

/// Input classes of the recorded findings (known_findings.json): local wall-clock times that are
/// ambiguous or missing when truncated to the unit.
fn exclude_known(z: &Zone, now: i64, l: i64, u: Unit) {
    let start = start_of_unit(z, l, u);
    // the truncated local time must map to exactly one instant
    let (kind, _, _) = local_kind(z, start);
    sym::assume(kind == 0);
    let _ = now;
}

/// TimeTrigger::{new, trigger}: fires on the first arrival at or after the scheduled instant,
/// then reschedules strictly into the future.
pub fn body_trigger(z: Zone, u: Unit, modulate: bool, narr: usize, witness: bool) {
    let n = 1 + sym::below(3) as i64;
    let t0 = z.lo + sym::below_u32((z.hi - z.lo - 400000) as u32) as i64;
    let l0 = t0 + offset_at_utc(&z, t0);
    sym::assume(l0 >= z.jan1_days * 86400 && l0 < (z.jan1_days + z.year_len - 4) * 86400);
    install(z, t0, 0);
    let trig = TimeTrigger::new(TimeTriggerConfig::verif_new(interval(u, n), modulate, 0));
    let mut scheduled = trig.verif_next_roll_time().timestamp();
    assert!(scheduled > t0);
    let mut t = t0;
    let mut fired_any = false;
    for _ in 0..narr {
        let d = sym::below_u32(100001) as i64;
        t += d;
        let lt = t + offset_at_utc(&z, t);
        let _ = lt;
        set_now(t, 0);
        let fired = log4rs::append::rolling_file::verif_with_log_file(std::path::Path::new("/l/a"), 0, |f| {
            use log4rs::append::rolling_file::policy::compound::trigger::Trigger;
            match trig.trigger(f) {
                Ok(b) => b,
                Err(_) => panic!("trigger returned an error"),
            }
        });
        assert!(fired == (t >= scheduled), "C16: fires exactly on the first arrival at or after the scheduled instant");
        let new_sched = trig.verif_next_roll_time().timestamp();
        if fired {
            fired_any = true;
            assert!(new_sched > t, "C16: reschedules strictly into the future");
        } else {
            assert!(new_sched == scheduled, "C16: schedule unchanged while not firing");
        }
        scheduled = new_sched;
    }
    cover!(fired_any, "the trigger fired at least once");
    if witness {
        assert!(false, "WITNESS");
    }
}

macro_rules! time_common {
    ($($rest:tt)*) => {
        harnesses! {
            common {
                #[cfg_attr(kani, kani::stub(<chrono::Local as chrono::TimeZone>::offset_from_utc_datetime, crate::c16_time::stub_offset_from_utc))]
                #[cfg_attr(kani, kani::stub(<chrono::Local as chrono::TimeZone>::offset_from_local_datetime, crate::c16_time::stub_offset_from_local))]
                #[cfg_attr(kani, kani::stub(chrono::Local::now, crate::c16_time::stub_local_now))]
                #[cfg_attr(kani, kani::stub(chrono::Utc::now, crate::c16_time::stub_utc_now))]
                #[cfg_attr(kani, kani::stub(rand::thread_rng, crate::c16_time::stub_thread_rng))]
            }
            $($rest)*
        }
    };
}

time_common! {
    #[kani::unwind(4)]
    fn next_utc_second() { body_next(UTC0, Unit::Second, false, 3, None, false, false) }
    #[kani::unwind(4)]
    fn next_utc_second_witness() { body_next(UTC0, Unit::Second, false, 3, None, false, true) }
    #[kani::unwind(4)]
    fn next_utc_minute_mod() { body_next(UTC0, Unit::Minute, true, 3, None, false, false) }
    #[kani::unwind(4)]
    fn next_kolkata_hour_mod() { body_next(KOLKATA, Unit::Hour, true, 3, None, false, false) }
    #[kani::unwind(4)]
    fn next_kolkata_day() { body_next(KOLKATA, Unit::Day, false, 3, None, false, false) }
    #[kani::unwind(4)]
    fn next_ny_minute() { body_next(NEW_YORK, Unit::Minute, false, 3, None, false, false) }
    #[kani::unwind(4)]
    fn next_ny_hour_mod() { body_next(NEW_YORK, Unit::Hour, true, 3, None, false, false) }
    #[kani::unwind(4)]
    fn next_ny_day_mod() { body_next(NEW_YORK, Unit::Day, true, 3, None, false, false) }
    #[kani::unwind(4)]
    fn next_berlin_second_mod() { body_next(BERLIN, Unit::Second, true, 3, None, false, false) }
    #[kani::unwind(4)]
    fn next_berlin_day() { body_next(BERLIN, Unit::Day, false, 3, None, false, false) }
    #[kani::unwind(4)]
    fn next_lordhowe_hour() { body_next(LORD_HOWE, Unit::Hour, false, 3, None, false, false) }
    #[kani::unwind(4)]
    fn next_havana_day() { body_next(HAVANA, Unit::Day, false, 3, None, false, false) }
    #[kani::unwind(4)]
    fn next_saopaulo_day_mod() { body_next(SAO_PAULO, Unit::Day, true, 3, None, false, false) }
    // calendar units, plain
    #[kani::unwind(14)]
    fn next_utc_week() { body_next(UTC0, Unit::Week, false, 3, None, false, false) }
    #[kani::unwind(14)]
    fn next_utc_week_mod() { body_next(UTC0, Unit::Week, true, 3, None, false, false) }
    #[kani::unwind(14)]
    fn next_berlin_week() { body_next(BERLIN, Unit::Week, false, 3, None, false, false) }
    #[kani::unwind(14)]
    fn next_kolkata_month() { body_next(KOLKATA, Unit::Month, false, 3, None, false, false) }
    #[kani::unwind(14)]
    fn next_ny_month() { body_next(NEW_YORK, Unit::Month, false, 3, None, false, false) }
    #[kani::unwind(14)]
    fn next_utc_year() { body_next(UTC0, Unit::Year, false, 3, None, false, false) }
    #[kani::unwind(14)]
    fn next_saopaulo_year() { body_next(SAO_PAULO, Unit::Year, false, 3, None, false, false) }
    // fixed larger multipliers
    #[kani::unwind(4)]
    fn next_utc_second_mod_n7() { body_next(UTC0, Unit::Second, true, -7, None, false, false) }
    #[kani::unwind(4)]
    fn next_utc_minute_mod_n13() { body_next(UTC0, Unit::Minute, true, -13, None, false, false) }
    #[kani::unwind(4)]
    fn next_ny_hour_mod_n5() { body_next(NEW_YORK, Unit::Hour, true, -5, None, false, false) }
    #[kani::unwind(4)]
    fn next_berlin_hour_n24() { body_next(BERLIN, Unit::Hour, false, -24, None, false, false) }
    #[kani::unwind(4)]
    fn next_kolkata_minute_n60() { body_next(KOLKATA, Unit::Minute, false, -60, None, false, false) }
    #[kani::unwind(4)]
    fn next_ny_day_mod_n100() { body_next(NEW_YORK, Unit::Day, true, -100, None, false, false) }
    // the recorded findings' input classes, unrestricted (expected to fail while a finding is open)
    #[kani::unwind(4)]
    fn known_ny_hour_ambiguous() { body_next(NEW_YORK, Unit::Hour, false, 3, Some((1730613600, 7200)), true, false) }
    #[kani::unwind(4)]
    fn known_havana_day_gap() { body_next(HAVANA, Unit::Day, false, 3, Some((1710046800, 90000)), true, false) }
    #[kani::unwind(5)]
    fn trigger_utc_minute() { body_trigger(UTC0, Unit::Minute, false, 1, false) }
    #[kani::unwind(5)]
    fn trigger_utc_minute_2() { body_trigger(UTC0, Unit::Minute, false, 2, false) }
    #[kani::unwind(5)]
    fn trigger_ny_hour_mod() { body_trigger(NEW_YORK, Unit::Hour, true, 2, false) }
}
