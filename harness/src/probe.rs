//! scratch experiments (not registered in any check)
use crate::sym;
use crate::util::*;
use log4rs::verif_hooks::Tree;

harnesses! {
    #[kani::unwind(6)]
    fn p_tree_max1() {
        let l0 = any_level_filter();
        let l1 = any_level_filter();
        let mut t = Tree::new(l0, vec![0]);
        t.add("a", vec![1], true, l1);
        let m = t.max_log_level();
        assert!(filter_rank(m) >= filter_rank(l0));
        std::mem::forget(t);
    }
}

pub mod bisect {
    use crate::sym;
    harnesses! {
        fn b_stdout() { let o = std::io::stdout(); std::mem::forget(o); }
        fn b_console_writer() { let w = log4rs::encode::writer::console::ConsoleWriter::stdout(); std::mem::forget(w); }
        #[kani::stub(std::env::var, crate::world::env::stub_var)]
        fn b_console_writer_envstub() { let w = log4rs::encode::writer::console::ConsoleWriter::stdout(); std::mem::forget(w); }
    }
}
