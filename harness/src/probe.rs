//! scratch experiments (not registered in any check)
use crate::sym;
use crate::util::*;
use log4rs::verif_hooks::Tree;

harnesses! {
    #[kani::unwind(6)]
    fn p_tree_max1() {
        let l0 = any_level_filter();
        let l1 = any_level_filter();
        let mut t = Tree::new(l0, vec![0]);
        t.add("a", vec![1], true, l1);
        let m = t.max_log_level();
        assert!(filter_rank(m) >= filter_rank(l0));
        std::mem::forget(t);
    }
}

pub mod bisect {
    use crate::sym;
    harnesses! {
        fn b_stdout() { let o = std::io::stdout(); std::mem::forget(o); }
        fn b_console_writer() { let w = log4rs::encode::writer::console::ConsoleWriter::stdout(); std::mem::forget(w); }
        #[kani::stub(std::env::var, crate::world::env::stub_var)]
        fn b_console_writer_envstub() { let w = log4rs::encode::writer::console::ConsoleWriter::stdout(); std::mem::forget(w); }
    }
}

pub mod b13 {
    use crate::sym;
    use log::{LevelFilter, Record};
    use log4rs::append::Append;
    use log4rs::config::{Appender, Config, Logger as LoggerCfg, Root};
    #[derive(Debug)]
    struct Nop;
    impl Append for Nop {
        fn append(&self, _r: &Record) -> anyhow::Result<()> { Ok(()) }
        fn flush(&self) {}
    }
    harnesses! {
        // fully concrete configuration
        #[kani::unwind(8)]
        fn b_concrete() {
            let b = Config::builder()
                .appender(Appender::builder().build("A", Box::new(Nop)))
                .logger(LoggerCfg::builder().appender("A").build("a::b", LevelFilter::Info));
            let r = b.build(Root::builder().appender("A").build(LevelFilter::Warn));
            assert!(r.is_ok());
            std::mem::forget(r);
        }
        // one symbolic byte in the logger name
        #[kani::unwind(8)]
        fn b_one_byte() {
            let mut nb = *b"a::b";
            nb[3] = if sym::any_bool() { b'b' } else { b':' };
            let name = unsafe { std::str::from_utf8_unchecked(&nb) };
            let b = Config::builder()
                .appender(Appender::builder().build("A", Box::new(Nop)))
                .logger(LoggerCfg::builder().appender("A").build(name, LevelFilter::Info));
            let r = b.build(Root::builder().appender("A").build(LevelFilter::Warn));
            assert!(r.is_ok() == (nb[3] == b'b'));
            std::mem::forget(r);
        }
    }
}
