//! scratch experiments (not registered in any check)
use crate::sym;
use crate::util::*;
use log4rs::verif_hooks::Tree;

harnesses! {
    #[kani::unwind(6)]
    fn p_tree_max1() {
        let l0 = any_level_filter();
        let l1 = any_level_filter();
        let mut t = Tree::new(l0, vec![0]);
        t.add("a", vec![1], true, l1);
        let m = t.max_log_level();
        assert!(filter_rank(m) >= filter_rank(l0));
        std::mem::forget(t);
    }
}
