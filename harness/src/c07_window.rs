//! C07: the fixed-window roller keeps the newest `count` files at base..base+count-1.
//! Unit under check: the real `FixedWindowRollerBuilder::build`, `FixedWindowRoller::roll`,
//! `rotate`, `move_file`, `Compression::None::compress`, `DeleteRoller::roll` and
//! `expand_env_vars` as called from there, over the model file system (E4) / the
//! real file system natively.
use crate::sym;
use crate::world::{env, fs};
use log4rs::append::rolling_file::policy::compound::roll::{
    delete::DeleteRoller, fixed_window::FixedWindowRoller, Roll,
};
use std::path::Path;

pub const MAXW: usize = 6;

#[derive(Clone, Copy, PartialEq)]
pub enum Kind {
    /// `<root>/a.{}`
    FileIndex,
    /// `<root>/{}/a`
    DirIndex,
    /// `<root>/a.{}.{}`
    Repeated,
    /// `<root>/{}/a.{}` (index in a directory component and in the file name)
    DirAndFile,
    /// `<root>/a$ENV{D}.{}` with D set to "x"
    EnvSet,
    /// `<root>/a$ENV{D}.{}` with D unset (reference stays literal)
    EnvUnset,
}

/// archive names relative to the root for index 0..=5, per pattern kind
fn archive_name(kind: Kind, idx: u32) -> &'static str {
    const F: [&str; 6] = ["a.0", "a.1", "a.2", "a.3", "a.4", "a.5"];
    const D: [&str; 6] = ["0/a", "1/a", "2/a", "3/a", "4/a", "5/a"];
    const R: [&str; 6] = ["a.0.0", "a.1.1", "a.2.2", "a.3.3", "a.4.4", "a.5.5"];
    const DF: [&str; 6] = ["0/a.0", "1/a.1", "2/a.2", "3/a.3", "4/a.4", "5/a.5"];
    const ES: [&str; 6] = ["ax.0", "ax.1", "ax.2", "ax.3", "ax.4", "ax.5"];
    const EU: [&str; 6] = ["a$ENV{D}.0", "a$ENV{D}.1", "a$ENV{D}.2", "a$ENV{D}.3", "a$ENV{D}.4", "a$ENV{D}.5"];
    match kind {
        Kind::FileIndex => F[idx as usize],
        Kind::DirIndex => D[idx as usize],
        Kind::Repeated => R[idx as usize],
        Kind::DirAndFile => DF[idx as usize],
        Kind::EnvSet => ES[idx as usize],
        Kind::EnvUnset => EU[idx as usize],
    }
}
fn dir_name(idx: u32) -> &'static str {
    const D: [&str; 6] = ["0", "1", "2", "3", "4", "5"];
    D[idx as usize]
}
fn pattern_tail(kind: Kind) -> &'static str {
    match kind {
        Kind::FileIndex => "/a.{}",
        Kind::DirIndex => "/{}/a",
        Kind::Repeated => "/a.{}.{}",
        Kind::DirAndFile => "/{}/a.{}",
        Kind::EnvSet | Kind::EnvUnset => "/a$ENV{D}.{}",
    }
}

/// `base`, `count`: instance parameters; window slots j = 0..=count (slot `count` lies just
/// outside the window and must stay untouched); if base > 0 the name below the window too.
pub fn body(kind: Kind, base: u32, count: u32, nrolls: usize, cross_device: bool, witness: bool) {
    fs::reset();
    env::reset();
    match kind {
        Kind::EnvSet => env::set("D", Some("x")),
        Kind::EnvUnset => env::set("D", None),
        _ => {}
    }
    let active = fs::add_name("a", 0);
    let bystander = fs::add_name("b", 0);
    let nwin = count as usize + 1;
    let mut slot = [0usize; MAXW];
    for j in 0..nwin {
        let idx = base + j as u32;
        let dir = if kind == Kind::DirIndex || kind == Kind::DirAndFile {
            // archive directories may or may not exist beforehand
            fs::add_dir(dir_name(idx), false)
        } else {
            0
        };
        slot[j] = fs::add_name(archive_name(kind, idx), dir);
    }
    let below = if base > 0 {
        let dir = if kind == Kind::DirIndex || kind == Kind::DirAndFile { fs::add_dir(dir_name(base - 1), false) } else { 0 };
        Some(fs::add_name(archive_name(kind, base - 1), dir))
    } else {
        None
    };

    // ---- symbolic initial directory state: any subset of the names exists --------------
    let mut model: [Option<u8>; MAXW] = [None; MAXW];
    for j in 0..nwin {
        if sym::any_bool() {
            let id = 10 + j as u8;
            if kind == Kind::DirIndex || kind == Kind::DirAndFile {
                #[cfg(kani)]
                unsafe {
                    fs::DISK.dir_exists[fs::DISK.dir_of[slot[j]]] = true;
                }
            }
            fs::put(slot[j], &[id]);
            model[j] = Some(id);
        }
    }
    let by_exists = sym::any_bool();
    if by_exists {
        fs::put(bystander, &[99]);
    }
    let below_exists = below.is_some() && sym::any_bool();
    if below_exists {
        if kind == Kind::DirIndex || kind == Kind::DirAndFile {
            #[cfg(kani)]
            unsafe {
                fs::DISK.dir_exists[fs::DISK.dir_of[below.unwrap()]] = true;
            }
        }
        fs::put(below.unwrap(), &[98]);
    }
    if cross_device {
        fs::set_rename_cross_device(true);
    }

    let mut pattern = fs::root();
    pattern.push_str(pattern_tail(kind));
    // constructed directly (hook): `build` is checked on its own in `c07_build`, and keeping it
    // out of this harness keeps anyhow's error objects out of the goto program
    let roller = FixedWindowRoller::verif_new(&pattern, base, count);
    let active_path = fs::path(active);

    let mut saw_gap = false;
    let mut saw_full = true;
    for r in 0..nrolls {
        let id = 1 + r as u8;
        fs::put(active, &[id]);
        for j in 0..count as usize {
            if model[j].is_none() {
                saw_full = false;
                if j + 1 < count as usize && model[j + 1].is_some() {
                    saw_gap = true;
                }
            }
        }

        let res = roller.roll(Path::new(&active_path));
        assert!(res.is_ok(), "roll succeeds on a fault-free file system");

        // ---- reference: array model of the window ---------------------------------
        let old = model;
        let c = count as usize;
        if c > 0 {
            // slots strictly inside the window shift by one; a missing archive leaves a hole
            for j in (1..c).rev() {
                if j == c - 1 && c >= 2 && old[c - 2].is_none() {
                    // the oldest archive: property is silent on whether it survives when its
                    // predecessor is missing; accept "kept" (checked below against both)
                    model[j] = old[j];
                } else {
                    model[j] = old[j - 1];
                }
            }
            model[0] = Some(id);
        }
        for j in 0..nwin {
            let got = fs::get(slot[j]);
            let lenient = c >= 2 && j == c - 1 && old[c - 2].is_none();
            match (model[j], got) {
                (Some(e), Some((len, data))) => {
                    assert!(len == 1 && data[0] == e, "archive b+j holds the (j+1)-th most recently rolled file");
                }
                (None, None) => {}
                (Some(_), None) if lenient => {
                    model[j] = None;
                }
                _ => assert!(false, "archive present/absent contrary to the window law"),
            }
        }
        assert!(fs::get(active).is_none(), "rolled file no longer exists at its original path");
        match fs::get(bystander) {
            Some((len, data)) => assert!(by_exists && len == 1 && data[0] == 99, "bystander untouched"),
            None => assert!(!by_exists, "bystander untouched"),
        }
        if let Some(b) = below {
            match fs::get(b) {
                Some((len, data)) => assert!(below_exists && len == 1 && data[0] == 98, "name below the window untouched"),
                None => assert!(!below_exists, "name below the window untouched"),
            }
        }
        assert!(!fs::unknown_touched(), "no file outside the managed names is created, modified or removed");
    }
    let w1 = if count >= 2 { saw_gap } else { by_exists };
    let w2 = if count > 0 { saw_full } else { !by_exists };
    cover!(w1, "initial window with a gap below an existing archive (count >= 2) / bystander present");
    cover!(w2, "window completely full before every roll: the oldest is discarded (count >= 1) / bystander absent");
    if witness {
        assert!(false, "WITNESS");
    }
    fs::cleanup();
    std::mem::forget(roller);
}

/// DeleteRoller: removes the rolled file, touches nothing else.
pub fn body_delete(witness: bool) {
    fs::reset();
    let active = fs::add_name("a", 0);
    let other = fs::add_name("a.0", 0);
    let other_exists = sym::any_bool();
    if other_exists {
        fs::put(other, &[7]);
    }
    fs::put(active, &[1]);
    let roller = DeleteRoller::new();
    let p = fs::path(active);
    let res = roller.roll(Path::new(&p));
    assert!(res.is_ok());
    assert!(fs::get(active).is_none(), "delete roller removes the rolled file");
    match fs::get(other) {
        Some((len, data)) => assert!(other_exists && len == 1 && data[0] == 7),
        None => assert!(!other_exists),
    }
    assert!(!fs::unknown_touched());
    cover!(other_exists, "an unrelated archive exists");
    if witness {
        assert!(false, "WITNESS");
    }
    fs::cleanup();
}

/// Window at the top of the index range: base = u32::MAX, count = 1 keeps exactly the archive
/// `a.4294967295`; every index fits, so the roll must work (no overflow in the index arithmetic).
pub fn body_maxbase(witness: bool) {
    fs::reset();
    env::reset();
    let active = fs::add_name("a", 0);
    let top = fs::add_name("a.4294967295", 0);
    let existed = sym::any_bool();
    if existed {
        fs::put(top, &[10]);
    }
    fs::put(active, &[1]);
    let mut pattern = fs::root();
    pattern.push_str("/a.{}");
    let roller = FixedWindowRoller::verif_new(&pattern, u32::MAX, 1);
    let p = fs::path(active);
    let res = roller.roll(Path::new(&p));
    assert!(res.is_ok(), "C07: a window whose indices all fit must roll");
    assert!(fs::get(active).is_none());
    match fs::get(top) {
        Some((1, d)) => assert!(d[0] == 1, "the rolled file is the newest archive"),
        _ => assert!(false, "the rolled file is the newest archive"),
    }
    assert!(!fs::unknown_touched());
    cover!(existed, "an older archive existed at the top index");
    if witness {
        assert!(false, "WITNESS");
    }
    fs::cleanup();
    std::mem::forget(roller);
}

/// `FixedWindowRollerBuilder::build`: accepts exactly patterns containing `{}`; compression
/// extensions are refused when the feature is off; the built roller rolls like the direct one.
/// `FixedWindowRollerBuilder::build` on one pattern (an instance parameter: a pattern chosen by the
/// solver made every string operation symbolic, DESIGN.md 9.8 rule 19); base and count over all of u32.
pub fn body_build(pat: &'static str, ok: bool, witness: bool) {
    let base = sym::any_u32();
    let count = sym::any_u32();
    let r = FixedWindowRoller::builder().base(base).build(pat, count);
    assert!(r.is_ok() == ok, "build accepts exactly the patterns containing the index placeholder");
    if witness {
        assert!(false, "WITNESS");
    }
    std::mem::forget(r);
}

harnesses! {
    common {
        #[cfg_attr(kani, kani::stub(std::fs::rename, crate::world::fs::stub_rename))]
        #[cfg_attr(kani, kani::stub(std::fs::copy, crate::world::fs::stub_copy))]
        #[cfg_attr(kani, kani::stub(std::fs::remove_file, crate::world::fs::stub_remove_file))]
        #[cfg_attr(kani, kani::stub(std::fs::create_dir_all, crate::world::fs::stub_create_dir_all))]
        #[cfg_attr(kani, kani::stub(std::env::var, crate::world::env::stub_var))]
        #[cfg_attr(kani, kani::stub(core::unicode::unicode_data::alphabetic::lookup, crate::util::stub_unicode_lookup_cut))]
        #[cfg_attr(kani, kani::stub(core::unicode::unicode_data::n::lookup, crate::util::stub_unicode_lookup_cut))]
        #[cfg_attr(kani, kani::stub(std::backtrace::Backtrace::capture, crate::util::stub_backtrace_capture))]
        #[cfg_attr(kani, kani::stub(<anyhow::Error as std::ops::Drop>::drop, crate::util::stub_anyhow_drop))]
        #[cfg_attr(kani, kani::stub(<anyhow::Error as std::convert::From<std::io::Error>>::from, crate::util::stub_anyhow_from_cut))]
    }
    #[kani::unwind(12)]
    fn c07_build_index() { body_build("/l/a.{}", true, false) }
    #[kani::unwind(12)]
    fn c07_build_index_witness() { body_build("/l/a.{}", true, true) }
    #[kani::unwind(12)]
    fn c07_build_noindex() { body_build("/l/a", false, false) }
    #[kani::unwind(12)]
    fn c07_build_gz() { body_build("/l/a.{}.gz", cfg!(feature = "gzip"), false) }
    #[kani::unwind(12)]
    fn c07_build_zst_dir() { body_build("/l/{}/a.zst", cfg!(feature = "zstd"), false) }
    #[kani::unwind(16)]
    fn c07_file_bmax_c1() { body_maxbase(false) }
    #[kani::unwind(8)]
    fn c07_delete() { body_delete(false) }
    #[kani::unwind(8)]
    fn c07_file_b0_c0() { body(Kind::FileIndex, 0, 0, 1, false, false) }
    #[kani::unwind(8)]
    fn c07_file_b0_c1() { body(Kind::FileIndex, 0, 1, 1, false, false) }
    #[kani::unwind(8)]
    fn c07_file_b0_c2() { body(Kind::FileIndex, 0, 2, 1, false, false) }
    #[kani::unwind(8)]
    fn c07_file_b0_c2_witness() { body(Kind::FileIndex, 0, 2, 1, false, true) }
    #[kani::unwind(8)]
    fn c07_file_b1_c2() { body(Kind::FileIndex, 1, 2, 1, false, false) }
    #[kani::unwind(8)]
    fn c07_file_b0_c3() { body(Kind::FileIndex, 0, 3, 1, false, false) }
    #[kani::unwind(8)]
    fn c07_file_b3_c2() { body(Kind::FileIndex, 3, 2, 1, false, false) }
    #[kani::unwind(8)]
    fn c07_file_b0_c2_two_rolls() { body(Kind::FileIndex, 0, 2, 2, false, false) }
    #[kani::unwind(8)]
    fn c07_file_b1_c4() { body(Kind::FileIndex, 1, 4, 1, false, false) }
    #[kani::unwind(8)]
    fn c07_file_b0_c2_xdev() { body(Kind::FileIndex, 0, 2, 1, true, false) }
    #[kani::unwind(8)]
    fn c07_dir_b0_c2() { body(Kind::DirIndex, 0, 2, 1, false, false) }
    #[kani::unwind(10)]
    fn c07_dirfile_b0_c2() { body(Kind::DirAndFile, 0, 2, 1, false, false) }
    #[kani::unwind(10)]
    fn c07_dirfile_b1_c3() { body(Kind::DirAndFile, 1, 3, 1, false, false) }
    #[kani::unwind(8)]
    fn c07_dir_b1_c3() { body(Kind::DirIndex, 1, 3, 1, false, false) }
    #[kani::unwind(10)]
    fn c07_rep_b0_c2() { body(Kind::Repeated, 0, 2, 1, false, false) }
    #[kani::unwind(16)]
    fn c07_envset_b0_c2() { body(Kind::EnvSet, 0, 2, 1, false, false) }
    #[kani::unwind(16)]
    fn c07_envunset_b0_c2() { body(Kind::EnvUnset, 0, 2, 1, false, false) }
}
