//! C10: width / fill / alignment count characters, truncate then pad, never split UTF-8.
//! Unit under check: the real `Chunk::encode` with `MaxWidthWriter`, `LeftAlignWriter`,
//! `RightAlignWriter`, `is_char_boundary`, `char_starts` (door-opener `verif_encode_padded`).
use crate::sym;
use log::Record;
use log4rs::encode::pattern::{verif_encode_field, verif_encode_padded, VerifSpec};
use log4rs::encode::{Style, Write as EncWrite};
use std::io;

pub const OUTCAP: usize = 48;

// The instances of this module contain literal chunks only.  The chunk list lives on the heap,
// where the symbolic executor cannot see that an element is a literal, so it also explores
// "this element is a date / MDC / id formatter"; those phantom paths are cut here (they cannot
// occur for the instances, and the solver would prove them infeasible anyway).
#[cfg(kani)]
pub fn cut_local_now() -> chrono::DateTime<chrono::Local> {
    crate::sym::cut()
}
#[cfg(kani)]
pub fn cut_utc_now() -> chrono::DateTime<chrono::Utc> {
    crate::sym::cut()
}
#[cfg(kani)]
pub fn cut_mdc_get<Q: ?Sized, F, T>(_key: &Q, _f: F) -> T
where
    F: FnOnce(Option<&str>) -> T,
{
    crate::sym::cut()
}
#[cfg(kani)]
pub fn cut_thread_id() -> usize {
    crate::sym::cut()
}
#[cfg(kani)]
pub fn cut_process_id() -> u32 {
    crate::sym::cut()
}

/// Capturing sink; with `short`, every `write` accepts only a solver-chosen prefix (at least one
/// byte) - "however the text arrives in pieces".
pub struct Sink {
    pub buf: [u8; OUTCAP],
    pub len: usize,
    pub short: bool,
}
impl io::Write for Sink {
    fn write(&mut self, b: &[u8]) -> io::Result<usize> {
        let mut n = b.len();
        if self.short && n > 1 {
            let k = sym::any_u8() as usize;
            sym::assume(k >= 1 && k <= n);
            n = k;
        }
        let mut i = 0;
        while i < n {
            if self.len < OUTCAP {
                self.buf[self.len] = b[i];
            }
            self.len += 1;
            i += 1;
        }
        Ok(n)
    }
    fn flush(&mut self) -> io::Result<()> {
        Ok(())
    }
}
impl EncWrite for Sink {
    fn set_style(&mut self, _s: &Style) -> io::Result<()> {
        Ok(())
    }
}

/// A symbolic scalar value of 1-3 (or 1-4) bytes, written into `dst`; returns its length.
fn any_scalar(dst: &mut [u8], allow4: bool) -> usize {
    match sym::below(if allow4 { 4 } else { 3 }) {
        0 => {
            dst[0] = b'a' + sym::below(3);
            1
        }
        1 => {
            // U+00E9..U+00EB
            dst[0] = 0xC3;
            dst[1] = 0xA9 + sym::below(3);
            2
        }
        2 => {
            // U+20AC..
            dst[0] = 0xE2;
            dst[1] = 0x82;
            dst[2] = 0xAC + sym::below(2);
            3
        }
        _ => {
            // U+1F600..
            dst[0] = 0xF0;
            dst[1] = 0x9F;
            dst[2] = 0x98;
            dst[3] = 0x80 + sym::below(2);
            4
        }
    }
}

fn fill_bytes(fill: char, dst: &mut [u8; 4]) -> usize {
    fill.encode_utf8(dst).len()
}

/// One group `{(<pieces>):<fill><align><m>.<M>}`; `nsc` scalars split into `npieces` pieces at
/// scalar boundaries; `has_min` / `has_max`: which bounds are present; m, M in 0..=4, m <= M.
pub fn body(fill: char, right: bool, has_min: bool, has_max: bool, nsc: usize, npieces: usize, short: bool, allow4: bool, witness: bool) {
    // ---- symbolic text ----
    let mut text = [0u8; 16];
    let mut starts = [0usize; 5];
    let mut tl = 0;
    let count = sym::below(nsc as u8 + 1) as usize;
    let mut i = 0;
    while i < nsc {
        if i < count {
            starts[i] = tl;
            tl += any_scalar(&mut text[tl..], allow4);
        }
        i += 1;
    }
    starts[count] = tl;
    // ---- split into pieces at scalar boundaries ----
    let c1 = if npieces >= 2 { sym::below(count as u8 + 1) as usize } else { count };
    let c2 = if npieces >= 3 {
        let c = sym::below(count as u8 + 1) as usize;
        sym::assume(c >= c1);
        c
    } else {
        count
    };
    let (b1, b2) = (starts[c1], starts[c2]);
    let p0 = unsafe { std::str::from_utf8_unchecked(&text[..b1]) };
    let p1 = unsafe { std::str::from_utf8_unchecked(&text[b1..b2]) };
    let p2 = unsafe { std::str::from_utf8_unchecked(&text[b2..tl]) };
    let m = sym::below(5) as usize;
    let mx = sym::below(5) as usize;
    if has_min && has_max {
        sym::assume(m <= mx);
    }
    let spec = VerifSpec {
        fill,
        right,
        min_width: if has_min { Some(m) } else { None },
        max_width: if has_max { Some(mx) } else { None },
    };
    let mut sink = Sink { buf: [0; OUTCAP], len: 0, short };
    // The text reaches the real Chunk::encode through a chunk built on the stack (no heap-stored
    // chunk list): as the record's target (one write) or as its message `{}{}{}` (one write per
    // piece).
    let _ = (p2, npieces);
    let res = if npieces <= 1 {
        let whole = unsafe { std::str::from_utf8_unchecked(&text[..tl]) };
        verif_encode_field(&mut sink, &Record::builder().target(whole).build(), false, spec)
    } else {
        let rest = unsafe { std::str::from_utf8_unchecked(&text[b1..tl]) };
        verif_encode_field(&mut sink, &Record::builder().args(format_args!("{}{}", p0, rest)).build(), true, spec)
    };
    assert!(res.is_ok());

    // ---- reference on scalar arrays: first M scalars, padded to m on the chosen side ----
    let kept = if has_max && count > mx { mx } else { count };
    let pad = if has_min && kept < m { m - kept } else { 0 };
    let mut fb = [0u8; 4];
    let fl = fill_bytes(fill, &mut fb);
    let mut exp = [0u8; OUTCAP];
    let mut n = 0;
    if right {
        for _ in 0..pad {
            for j in 0..fl {
                exp[n] = fb[j];
                n += 1;
            }
        }
    }
    let kept_bytes = starts[kept];
    let mut j = 0;
    while j < kept_bytes {
        exp[n] = text[j];
        n += 1;
        j += 1;
    }
    if !right {
        for _ in 0..pad {
            for j in 0..fl {
                exp[n] = fb[j];
                n += 1;
            }
        }
    }
    assert!(sink.len == n, "C10: cut to the first M characters, then padded to m characters");
    let mut k = 0;
    while k < OUTCAP {
        if k < n {
            assert!(sink.buf[k] == exp[k], "C10: output equals truncate-then-pad byte for byte (hence valid UTF-8)");
        }
        k += 1;
    }
    cover!(pad > 0 && kept > 0, "padding applied to a non-empty text");
    cover!(kept < count, "text truncated");
    if witness {
        assert!(false, "WITNESS");
    }
}

harnesses! {
    common {
        #[cfg_attr(kani, kani::stub(<chrono::Local as chrono::TimeZone>::offset_from_utc_datetime, crate::c16_time::stub_offset_from_utc))]
        #[cfg_attr(kani, kani::stub(<chrono::Local as chrono::TimeZone>::offset_from_local_datetime, crate::c16_time::stub_offset_from_local))]
        #[cfg_attr(kani, kani::stub(chrono::Local::now, crate::c10_width::cut_local_now))]
        #[cfg_attr(kani, kani::stub(chrono::Utc::now, crate::c10_width::cut_utc_now))]
        #[cfg_attr(kani, kani::stub(log_mdc::get, crate::c10_width::cut_mdc_get))]
        #[cfg_attr(kani, kani::stub(thread_id::get, crate::c10_width::cut_thread_id))]
        #[cfg_attr(kani, kani::stub(std::process::id, crate::c10_width::cut_process_id))]
        #[cfg_attr(kani, kani::stub(std::backtrace::Backtrace::capture, crate::util::stub_backtrace_capture))]
        #[cfg_attr(kani, kani::stub(<anyhow::Error as std::ops::Drop>::drop, crate::util::stub_anyhow_drop))]
        #[cfg_attr(kani, kani::stub(<anyhow::Error as std::convert::From<std::io::Error>>::from, crate::util::stub_anyhow_from_cut))]
    }
    // left/right x (min only | max only | both); fill ' '
    #[kani::unwind(8)]
    fn w_left_min() { body(' ', false, true, false, 3, 2, false, false, false) }
    #[kani::unwind(8)]
    fn w_left_min_witness() { body(' ', false, true, false, 3, 2, false, false, true) }
    #[kani::unwind(8)]
    fn w_right_min() { body('~', true, true, false, 3, 2, false, false, false) }
    #[kani::unwind(8)]
    fn w_max() { body(' ', false, false, true, 3, 2, false, false, false) }
    #[kani::unwind(8)]
    fn w_left_both() { body('é', false, true, true, 3, 2, false, false, false) }
    #[kani::unwind(8)]
    fn w_right_both() { body('€', true, true, true, 3, 2, false, false, false) }
    #[kani::unwind(8)]
    fn w_right_both_brace() { body('{', true, true, true, 3, 3, false, false, false) }
    // short writes by the sink (pieces may end inside a scalar)
    #[kani::unwind(8)]
    fn w_max_short() { body(' ', false, false, true, 3, 1, true, false, false) }
    #[kani::unwind(8)]
    fn w_left_both_short() { body(' ', false, true, true, 3, 1, true, false, false) }
    #[kani::unwind(10)]
    fn w_left_both_4byte() { body(' ', false, true, true, 3, 3, false, true, false) }
}
