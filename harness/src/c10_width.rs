//! C10: width / fill / alignment count characters, truncate then pad, never split UTF-8.
//! Unit under check: the real `Chunk::encode` with `MaxWidthWriter`, `LeftAlignWriter`,
//! `RightAlignWriter`, `is_char_boundary`, `char_starts` (door-opener `verif_encode_padded`).
use crate::sym;
use log::Record;
use log4rs::encode::pattern::{verif_encode_field, verif_encode_padded, verif_width_writers, VerifSpec};
use log4rs::encode::{Style, Write as EncWrite};
use std::io;

pub const OUTCAP: usize = 28;

// The instances of this module contain literal chunks only.  The chunk list lives on the heap,
// where the symbolic executor cannot see that an element is a literal, so it also explores
// "this element is a date / MDC / id formatter"; those phantom paths are cut here (they cannot
// occur for the instances, and the solver would prove them infeasible anyway).
#[cfg(kani)]
pub fn cut_local_now() -> chrono::DateTime<chrono::Local> {
    crate::sym::cut()
}
#[cfg(kani)]
pub fn cut_utc_now() -> chrono::DateTime<chrono::Utc> {
    crate::sym::cut()
}
#[cfg(kani)]
pub fn cut_mdc_get<Q: ?Sized, F, T>(_key: &Q, _f: F) -> T
where
    F: FnOnce(Option<&str>) -> T,
{
    crate::sym::cut()
}
#[cfg(kani)]
pub fn cut_thread_id() -> usize {
    crate::sym::cut()
}
#[cfg(kani)]
pub fn cut_process_id() -> u32 {
    crate::sym::cut()
}

/// Capturing sink; with `short`, every `write` accepts only a solver-chosen prefix (at least one
/// byte) - "however the text arrives in pieces".
pub struct Sink {
    pub buf: [u8; OUTCAP],
    pub len: usize,
    pub short: bool,
}
impl io::Write for Sink {
    fn write(&mut self, b: &[u8]) -> io::Result<usize> {
        let mut n = b.len();
        if self.short && n > 1 {
            let k = sym::any_u8() as usize;
            sym::assume(k >= 1 && k <= n);
            n = k;
        }
        let mut i = 0;
        while i < n {
            if self.len < OUTCAP {
                self.buf[self.len] = b[i];
            }
            self.len += 1;
            i += 1;
        }
        Ok(n)
    }
    // no phantom `Err(WriteZero)` from the default `write_all` (see c09_pattern::Rec)
    fn write_all(&mut self, mut b: &[u8]) -> io::Result<()> {
        while !b.is_empty() {
            let n = match self.write(b) {
                Ok(n) => n,
                Err(_) => 0,
            };
            b = &b[n..];
        }
        Ok(())
    }
    fn flush(&mut self) -> io::Result<()> {
        Ok(())
    }
}
impl EncWrite for Sink {
    fn set_style(&mut self, _s: &Style) -> io::Result<()> {
        Ok(())
    }
}

/// A symbolic scalar value of 1-3 (or 1-4) bytes, written into `dst`; returns its length.
fn any_scalar(dst: &mut [u8], allow4: bool) -> usize {
    match sym::below(if allow4 { 4 } else { 3 }) {
        0 => {
            dst[0] = b'a' + sym::below(3);
            1
        }
        1 => {
            // U+00E9..U+00EB
            dst[0] = 0xC3;
            dst[1] = 0xA9 + sym::below(3);
            2
        }
        2 => {
            // U+20AC..
            dst[0] = 0xE2;
            dst[1] = 0x82;
            dst[2] = 0xAC + sym::below(2);
            3
        }
        _ => {
            // U+1F600..
            dst[0] = 0xF0;
            dst[1] = 0x9F;
            dst[2] = 0x98;
            dst[3] = 0x80 + sym::below(2);
            4
        }
    }
}

fn fill_bytes(fill: char, dst: &mut [u8; 4]) -> usize {
    fill.encode_utf8(dst).len()
}

/// One group `{(<pieces>):<fill><align><m>.<M>}`; `nsc` scalars split into `npieces` pieces at
/// scalar boundaries; `has_min` / `has_max`: which bounds are present; m, M in 0..=4, m <= M.
pub fn body(fill: char, right: bool, has_min: bool, has_max: bool, nsc: usize, npieces: usize, short: bool, allow4: bool, witness: bool) {
    body_mode(fill, right, has_min, has_max, nsc, npieces, short, allow4, false, witness)
}

/// `direct`: feed the pieces straight into the writer composition (door-opener
/// `verif_width_writers`) instead of going through `Chunk::encode` and the record formatting.
pub fn body_mode(fill: char, right: bool, has_min: bool, has_max: bool, nsc: usize, npieces: usize, short: bool, allow4: bool, direct: bool, witness: bool) {
    // ---- symbolic text ----
    let mut text = [0u8; 16];
    let mut starts = [0usize; 5];
    let mut tl = 0;
    let count = sym::below(nsc as u8 + 1) as usize;
    let mut i = 0;
    while i < nsc {
        if i < count {
            starts[i] = tl;
            tl += any_scalar(&mut text[tl..], allow4);
        }
        i += 1;
    }
    starts[count] = tl;
    // ---- split into pieces at scalar boundaries ----
    let c1 = if npieces >= 2 { sym::below(count as u8 + 1) as usize } else { count };
    let c2 = if npieces >= 3 {
        let c = sym::below(count as u8 + 1) as usize;
        sym::assume(c >= c1);
        c
    } else {
        count
    };
    let (b1, b2) = (starts[c1], starts[c2]);
    let p0 = unsafe { std::str::from_utf8_unchecked(&text[..b1]) };
    let p1 = unsafe { std::str::from_utf8_unchecked(&text[b1..b2]) };
    let p2 = unsafe { std::str::from_utf8_unchecked(&text[b2..tl]) };
    let m = sym::below(5) as usize;
    let mx = sym::below(5) as usize;
    if has_min && has_max {
        sym::assume(m <= mx);
    }
    let spec = VerifSpec {
        fill,
        right,
        min_width: if has_min { Some(m) } else { None },
        max_width: if has_max { Some(mx) } else { None },
    };
    let mut sink = Sink { buf: [0; OUTCAP], len: 0, short };
    // The text reaches the real Chunk::encode through a chunk built on the stack (no heap-stored
    // chunk list): as the record's target (one write) or as its message `{}{}{}` (one write per
    // piece).
    let _ = (p2, npieces);
    let res = if direct {
        let all: [&[u8]; 3] = [&text[..b1], &text[b1..b2], &text[b2..tl]];
        verif_width_writers(&mut sink, &all[..npieces.max(1).min(3)], spec)
    } else if npieces <= 1 {
        let whole = unsafe { std::str::from_utf8_unchecked(&text[..tl]) };
        verif_encode_field(&mut sink, &Record::builder().target(whole).build(), false, spec)
    } else {
        let rest = unsafe { std::str::from_utf8_unchecked(&text[b1..tl]) };
        verif_encode_field(&mut sink, &Record::builder().args(format_args!("{}{}", p0, rest)).build(), true, spec)
    };
    assert!(res.is_ok());

    // ---- reference on scalar arrays: first M scalars, padded to m on the chosen side ----
    let kept = if has_max && count > mx { mx } else { count };
    let pad = if has_min && kept < m { m - kept } else { 0 };
    let mut fb = [0u8; 4];
    let fl = fill_bytes(fill, &mut fb);
    let mut exp = [0u8; OUTCAP];
    let mut n = 0;
    if right {
        for _ in 0..pad {
            for j in 0..fl {
                exp[n] = fb[j];
                n += 1;
            }
        }
    }
    let kept_bytes = starts[kept];
    let mut j = 0;
    while j < kept_bytes {
        exp[n] = text[j];
        n += 1;
        j += 1;
    }
    if !right {
        for _ in 0..pad {
            for j in 0..fl {
                exp[n] = fb[j];
                n += 1;
            }
        }
    }
    assert!(sink.len == n, "C10: cut to the first M characters, then padded to m characters");
    let mut k = 0;
    while k < OUTCAP {
        if k < n {
            assert!(sink.buf[k] == exp[k], "C10: output equals truncate-then-pad byte for byte (hence valid UTF-8)");
        }
        k += 1;
    }
    cover!(pad > 0 && kept > 0, "padding applied to a non-empty text");
    cover!(kept < count, "text truncated");
    if witness {
        assert!(false, "WITNESS");
    }
}

/// Layout-concrete instances of the direct variant: the byte lengths of the scalars (`layout`)
/// and the piece boundaries (`cuts`, in scalars) are constants of the instance; the bytes of
/// every scalar (any lead / continuation byte of its length class), m and M are symbolic.
pub fn body_fixed(layout: &[usize], cuts: (usize, usize), fill: char, right: bool, has_min: bool, has_max: bool, short: bool, witness: bool) {
    body_fixed_run(run_direct, 6, layout, cuts, fill, right, has_min, has_max, short, witness)
}

/// `mode` 0: the pieces go straight into the writer composition (`verif_width_writers`);
/// 1: through the real `Chunk::encode` as `{t:<spec>}` (the text is the record's target: one write);
/// 2: through the real `Chunk::encode` as `{m:<spec>}` with the message `{}{}` (two writes, cut at `cuts.0`).
pub fn body_fixed_mode(mode: u8, layout: &[usize], cuts: (usize, usize), fill: char, right: bool, has_min: bool, has_max: bool, short: bool, witness: bool) {
    body_fixed_w(6, mode, layout, cuts, fill, right, has_min, has_max, short, witness)
}

/// How the text reaches the code under check.  Kept out of `body_fixed_run` (generic over the
/// runner) so that a harness of the direct family does not have `Chunk::encode` - and with it
/// every formatter and the fmt machinery - among its reachable code and `dyn` candidates.
fn run_direct(sink: &mut Sink, text: &[u8], b1: usize, b2: usize, tl: usize, spec: VerifSpec) -> io::Result<()> {
    let all: [&[u8]; 3] = [&text[..b1], &text[b1..b2], &text[b2..tl]];
    verif_width_writers(sink, &all, spec)
}
fn run_target(sink: &mut Sink, text: &[u8], _b1: usize, _b2: usize, tl: usize, spec: VerifSpec) -> io::Result<()> {
    let whole = unsafe { std::str::from_utf8_unchecked(&text[..tl]) };
    verif_encode_field(sink, &Record::builder().target(whole).build(), false, spec)
}
fn run_message(sink: &mut Sink, text: &[u8], b1: usize, _b2: usize, tl: usize, spec: VerifSpec) -> io::Result<()> {
    let p0 = unsafe { std::str::from_utf8_unchecked(&text[..b1]) };
    let rest = unsafe { std::str::from_utf8_unchecked(&text[b1..tl]) };
    verif_encode_field(sink, &Record::builder().args(format_args!("{}{}", p0, rest)).build(), true, spec)
}

/// `wmax`: m and M range over 0..wmax.
pub fn body_fixed_w(wmax: u8, mode: u8, layout: &[usize], cuts: (usize, usize), fill: char, right: bool, has_min: bool, has_max: bool, short: bool, witness: bool) {
    match mode {
        0 => body_fixed_run(run_direct, wmax, layout, cuts, fill, right, has_min, has_max, short, witness),
        1 => body_fixed_run(run_target, wmax, layout, cuts, fill, right, has_min, has_max, short, witness),
        _ => body_fixed_run(run_message, wmax, layout, cuts, fill, right, has_min, has_max, short, witness),
    }
}

pub fn body_fixed_run<R>(run: R, wmax: u8, layout: &[usize], cuts: (usize, usize), fill: char, right: bool, has_min: bool, has_max: bool, short: bool, witness: bool)
where
    R: FnOnce(&mut Sink, &[u8], usize, usize, usize, VerifSpec) -> io::Result<()>,
{
    let count = layout.len();
    let mut text = [0u8; 16];
    let mut starts = [0usize; 6];
    let mut tl = 0;
    let mut i = 0;
    while i < count {
        starts[i] = tl;
        let l = layout[i];
        let lead = match l {
            1 => sym::below(0x80),
            2 => 0xC2 + sym::below(30),
            3 => 0xE1 + sym::below(12),
            _ => 0xF1 + sym::below(3),
        };
        text[tl] = lead;
        let mut j = 1;
        while j < l {
            text[tl + j] = 0x80 + sym::below(64);
            j += 1;
        }
        tl += l;
        i += 1;
    }
    starts[count] = tl;
    let (b1, b2) = (starts[cuts.0], starts[cuts.1]);
    let m = sym::below(wmax) as usize;
    let mx = sym::below(wmax) as usize;
    if has_min && has_max {
        sym::assume(m <= mx);
    }
    let spec = VerifSpec {
        fill,
        right,
        min_width: if has_min { Some(m) } else { None },
        max_width: if has_max { Some(mx) } else { None },
    };
    let mut sink = Sink { buf: [0; OUTCAP], len: 0, short };
    let res = run(&mut sink, &text, b1, b2, tl, spec);
    assert!(res.is_ok());

    // reference: the first M scalars, padded to m scalars with the fill on the chosen side
    let kept = if has_max && count > mx { mx } else { count };
    let pad = if has_min && kept < m { m - kept } else { 0 };
    let mut fb = [0u8; 4];
    let fl = fill_bytes(fill, &mut fb);
    let kept_bytes = starts[kept];
    let n = kept_bytes + pad * fl;
    assert!(sink.len == n, "C10: cut to the first M characters, then padded to m characters");
    let lead_pad = if right { pad * fl } else { 0 };
    let mut k = 0;
    while k < OUTCAP {
        if k < n {
            let e = if k < lead_pad {
                fb[k % fl]
            } else if k < lead_pad + kept_bytes {
                text[k - lead_pad]
            } else {
                fb[(k - lead_pad - kept_bytes) % fl]
            };
            assert!(sink.buf[k] == e, "C10: output equals truncate-then-pad byte for byte (hence valid UTF-8)");
        }
        k += 1;
    }
    cover!(!has_min || (pad > 0 && kept > 0), "padding applied to a non-empty text");
    cover!(!has_max || kept < count, "text truncated");
    cover!(kept == count && pad == 0 && count > 0, "text passed unchanged");
    if witness {
        assert!(false, "WITNESS");
    }
}

// with `direct` and fewer than 3 pieces the tail of the text must not be dropped
harnesses! {
    common {
        #[cfg_attr(kani, kani::stub(<chrono::Local as chrono::TimeZone>::offset_from_utc_datetime, crate::c16_time::stub_offset_from_utc))]
        #[cfg_attr(kani, kani::stub(<chrono::Local as chrono::TimeZone>::offset_from_local_datetime, crate::c16_time::stub_offset_from_local))]
        #[cfg_attr(kani, kani::stub(chrono::Local::now, crate::c10_width::cut_local_now))]
        #[cfg_attr(kani, kani::stub(chrono::Utc::now, crate::c10_width::cut_utc_now))]
        #[cfg_attr(kani, kani::stub(log_mdc::get, crate::c10_width::cut_mdc_get))]
        #[cfg_attr(kani, kani::stub(thread_id::get, crate::c10_width::cut_thread_id))]
        #[cfg_attr(kani, kani::stub(std::process::id, crate::c10_width::cut_process_id))]
        #[cfg_attr(kani, kani::stub(std::backtrace::Backtrace::capture, crate::util::stub_backtrace_capture))]
        #[cfg_attr(kani, kani::stub(<anyhow::Error as std::ops::Drop>::drop, crate::util::stub_anyhow_drop))]
        #[cfg_attr(kani, kani::stub(<anyhow::Error as std::convert::From<std::io::Error>>::from, crate::util::stub_anyhow_from_cut))]
    }
    // the writers themselves, fed directly (no Chunk::encode, no record formatting)
    #[kani::unwind(8)]
    fn d_left_min() { body_mode(' ', false, true, false, 3, 3, false, false, true, false) }
    #[kani::unwind(8)]
    fn d_left_min_witness() { body_mode(' ', false, true, false, 3, 3, false, false, true, true) }
    #[kani::unwind(8)]
    fn d_max() { body_mode(' ', false, false, true, 3, 3, false, false, true, false) }
    #[kani::unwind(8)]
    fn d_left_both() { body_mode('é', false, true, true, 3, 3, false, false, true, false) }
    #[kani::unwind(8)]
    fn d_right_min() { body_mode('~', true, true, false, 3, 3, false, false, true, false) }
    #[kani::unwind(8)]
    fn d_right_both() { body_mode('€', true, true, true, 3, 3, false, false, true, false) }
    // layout-concrete instances (bytes, m, M symbolic)
    #[kani::unwind(5)]
    fn f_max_21() { body_fixed(&[2, 1], (1, 2), ' ', false, false, true, false, false) }
    #[kani::unwind(5)]
    fn f_max_21_witness() { body_fixed(&[2, 1], (1, 2), ' ', false, false, true, false, true) }
    #[kani::unwind(5)]
    fn f_left_min_12() { body_fixed(&[1, 2], (1, 2), ' ', false, true, false, false, false) }
    #[kani::unwind(5)]
    fn f_right_min_21() { body_fixed(&[2, 1], (0, 1), '~', true, true, false, false, false) }
    #[kani::unwind(5)]
    fn f_left_both_13() { body_fixed(&[1, 3], (1, 2), 'é', false, true, true, false, false) }
    #[kani::unwind(5)]
    fn f_right_both_31() { body_fixed(&[3, 1], (1, 1), '€', true, true, true, false, false) }
    #[kani::unwind(5)]
    fn f_max_short_21() { body_fixed(&[2, 1], (2, 2), ' ', false, false, true, true, false) }
    // the same through the real Chunk::encode ({t:..}: one write; {m:..}: two writes)
    #[kani::unwind(5)]
    fn g_max_t21() { body_fixed_mode(1, &[2, 1], (0, 0), ' ', false, false, true, false, false) }
    #[kani::unwind(5)]
    fn g_left_both_t12() { body_fixed_mode(1, &[1, 2], (0, 0), 'é', false, true, true, false, false) }
    #[kani::unwind(5)]
    fn g_right_both_m21() { body_fixed_mode(2, &[2, 1], (1, 1), '€', true, true, true, false, false) }
    #[kani::unwind(5)]
    fn g_left_min_m12() { body_fixed_mode(2, &[1, 2], (1, 1), ' ', false, true, false, false, false) }
    #[kani::unwind(5)]
    fn f_left_min_213() { body_fixed(&[2, 1, 3], (1, 3), 'é', false, true, false, false, false) }
    #[kani::unwind(5)]
    fn f_right_min_312() { body_fixed(&[3, 1, 2], (1, 2), '€', true, true, false, false, false) }
    #[kani::unwind(5)]
    fn f_max_321() { body_fixed(&[3, 2, 1], (1, 2), ' ', false, false, true, false, false) }
    // both widths: one scalar, m <= M < 4
    #[kani::unwind(5)]
    fn f_left_both_2() { body_fixed_run(run_direct, 4, &[2], (0, 1), ' ', false, true, true, false, false) }
    #[kani::unwind(5)]
    fn f_right_both_3() { body_fixed_run(run_direct, 4, &[3], (0, 1), 'é', true, true, true, false, false) }
    #[kani::unwind(5)]
    fn f_left_both_21() { body_fixed_run(run_direct, 4, &[2, 1], (1, 2), 'é', false, true, true, false, false) }
    #[kani::unwind(5)]
    fn f_max_123() { body_fixed(&[1, 2, 3], (1, 2), ' ', false, false, true, false, false) }
    #[kani::unwind(5)]
    fn f_left_both_321() { body_fixed(&[3, 2, 1], (0, 2), 'é', false, true, true, false, false) }
    #[kani::unwind(8)]
    fn d_max_short() { body_mode(' ', false, false, true, 3, 3, true, false, true, false) }
    #[kani::unwind(8)]
    fn d_left_both_short() { body_mode(' ', false, true, true, 3, 3, true, false, true, false) }
    // left/right x (min only | max only | both); fill ' '
    #[kani::unwind(8)]
    fn w_left_min() { body(' ', false, true, false, 3, 2, false, false, false) }
    #[kani::unwind(8)]
    fn w_left_min_witness() { body(' ', false, true, false, 3, 2, false, false, true) }
    #[kani::unwind(8)]
    fn w_right_min() { body('~', true, true, false, 3, 2, false, false, false) }
    #[kani::unwind(8)]
    fn w_max() { body(' ', false, false, true, 3, 2, false, false, false) }
    #[kani::unwind(8)]
    fn w_left_both() { body('é', false, true, true, 3, 2, false, false, false) }
    #[kani::unwind(8)]
    fn w_right_both() { body('€', true, true, true, 3, 2, false, false, false) }
    #[kani::unwind(8)]
    fn w_right_both_brace() { body('{', true, true, true, 3, 3, false, false, false) }
    // short writes by the sink (pieces may end inside a scalar)
    #[kani::unwind(8)]
    fn w_max_short() { body(' ', false, false, true, 3, 1, true, false, false) }
    #[kani::unwind(8)]
    fn w_left_both_short() { body(' ', false, true, true, 3, 1, true, false, false) }
    #[kani::unwind(10)]
    fn w_left_both_4byte() { body(' ', false, true, true, 3, 3, false, true, false) }
}
