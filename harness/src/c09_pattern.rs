//! C09: pattern encoder output equals the pattern's meaning for well-formed patterns.
//! Unit under check: the real `Parser`, `From<Piece> for Chunk`, `PatternEncoder::{new,
//! encode}`, `Chunk::encode`, `FormattedChunk::encode`.  The pattern is an instance parameter
//! given twice: as text (parsed by the real parser) and as an abstract item list (rendered by
//! the reference), so the parser is genuinely checked.  Solver variables: level, message and
//! target text (units over a small alphabet incl. a 2-byte scalar), presence of module / file /
//! line, presence of the MDC key.
use crate::sym;
use log::{Level, Record};
use log4rs::encode::pattern::PatternEncoder;
use log4rs::encode::{Encode, Style, Write as EncWrite};
use std::io;

pub enum Item {
    Lit(&'static str),
    Level,
    Msg,
    Target,
    Module,
    File,
    Line,
    Thread,
    ThreadId,
    Tid,
    Pid,
    Newline,
    /// key, default
    Mdc(&'static str, &'static str),
    /// expected rendering of the fixed clock (2024-01-01T00:00:00Z) for the pattern's format, and
    /// the format itself (used by the native twin, which runs on the real clock; TZ=UTC)
    Date(&'static str, &'static str),
    Group(&'static [Item]),
    Highlight(&'static [Item]),
    /// rendered only in debug builds
    Debug(&'static [Item]),
    /// rendered only in release builds
    Release(&'static [Item]),
}

pub const CAP: usize = 96;
pub struct Rec {
    pub buf: [u8; CAP],
    pub len: usize,
    pub styles: u8,
    pub resets: u8,
}
impl io::Write for Rec {
    fn write(&mut self, b: &[u8]) -> io::Result<usize> {
        for &x in b {
            if self.len < CAP {
                self.buf[self.len] = x;
            }
            self.len += 1;
        }
        Ok(b.len())
    }
    // The default `write_all` can return `Err(WriteZero)`; the symbolic executor cannot rule that
    // out for a text of symbolic length, and every such phantom error is later dropped through
    // the `dyn Error` fan-out (DESIGN.md 9.1).  This sink takes everything and says so.
    fn write_all(&mut self, b: &[u8]) -> io::Result<()> {
        for &x in b {
            if self.len < CAP {
                self.buf[self.len] = x;
            }
            self.len += 1;
        }
        Ok(())
    }
    fn flush(&mut self) -> io::Result<()> {
        Ok(())
    }
}
impl EncWrite for Rec {
    fn set_style(&mut self, s: &Style) -> io::Result<()> {
        if s.text.is_none() && s.background.is_none() && s.intense.is_none() {
            self.resets += 1;
        } else {
            self.styles += 1;
        }
        Ok(())
    }
}

pub static mut MDC_SET: bool = false;
pub const MDC_VALUE: &str = "vé";

#[cfg(kani)]
pub fn stub_mdc_get<Q: ?Sized, F, T>(_key: &Q, f: F) -> T
where
    F: FnOnce(Option<&str>) -> T,
{
    if unsafe { MDC_SET } {
        f(Some(MDC_VALUE))
    } else {
        f(None)
    }
}
#[cfg(kani)]
pub fn stub_thread_id_get() -> usize {
    7
}
#[cfg(kani)]
pub fn stub_process_id() -> u32 {
    4242
}

struct Ctx<'a> {
    level: Level,
    msg: &'a [u8],
    target: &'a [u8],
    module: Option<&'static str>,
    file: Option<&'static str>,
    line: Option<u32>,
    mdc: bool,
    out: [u8; CAP],
    n: usize,
    styles: u8,
    resets: u8,
}
impl<'a> Ctx<'a> {
    fn raw(&mut self, s: &[u8]) {
        for &b in s {
            if self.n < CAP {
                self.out[self.n] = b;
            }
            self.n += 1;
        }
    }
    fn render(&mut self, items: &[Item]) {
        for it in items {
            match it {
                Item::Lit(s) => self.raw(s.as_bytes()),
                Item::Level => self.raw(match self.level {
                    Level::Error => b"ERROR",
                    Level::Warn => b"WARN",
                    Level::Info => b"INFO",
                    Level::Debug => b"DEBUG",
                    Level::Trace => b"TRACE",
                }),
                Item::Msg => {
                    let m = self.msg;
                    self.raw(m)
                }
                Item::Target => {
                    let t = self.target;
                    self.raw(t)
                }
                Item::Module => self.raw(self.module.unwrap_or("???").as_bytes()),
                Item::File => self.raw(self.file.unwrap_or("???").as_bytes()),
                Item::Line => match self.line {
                    Some(_) => self.raw(b"42"),
                    None => self.raw(b"???"),
                },
                Item::Thread => self.raw(b"main"),
                Item::Tid => self.raw(b"7"),
                Item::ThreadId => {
                    #[cfg(kani)]
                    self.raw(b"7");
                    #[cfg(not(kani))]
                    self.raw(thread_id::get().to_string().as_bytes());
                }
                Item::Pid => {
                    #[cfg(kani)]
                    self.raw(b"4242");
                    #[cfg(not(kani))]
                    self.raw(std::process::id().to_string().as_bytes());
                }
                Item::Newline => self.raw(b"\n"),
                Item::Mdc(_k, d) => {
                    if self.mdc {
                        self.raw(MDC_VALUE.as_bytes())
                    } else {
                        self.raw(d.as_bytes())
                    }
                }
                Item::Date(s, _fmt) => {
                    // under Kani the clock is the fixed harness instant; natively it is the real one
                    #[cfg(kani)]
                    self.raw(s.as_bytes());
                    #[cfg(not(kani))]
                    {
                        let _ = s;
                        self.raw(chrono::Utc::now().format(_fmt).to_string().as_bytes());
                    }
                }
                Item::Group(inner) => self.render(inner),
                Item::Highlight(inner) => {
                    let styled = !matches!(self.level, Level::Debug);
                    if styled {
                        self.styles += 1;
                    }
                    self.render(inner);
                    if styled {
                        self.resets += 1;
                    }
                }
                Item::Debug(inner) => {
                    if cfg!(debug_assertions) {
                        self.render(inner)
                    }
                }
                Item::Release(inner) => {
                    if !cfg!(debug_assertions) {
                        self.render(inner)
                    }
                }
            }
        }
    }
}

fn any_unit(dst: &mut [u8]) -> usize {
    match sym::below(4) {
        0 => {
            dst[0] = b'a';
            1
        }
        1 => {
            dst[0] = b'{';
            1
        }
        2 => {
            dst[0] = b'\\';
            1
        }
        _ => {
            dst[0] = 0xC3;
            dst[1] = 0xA9;
            2
        }
    }
}

pub fn body(pattern: &'static str, items: &'static [Item], witness: bool) {
    crate::c16_time::install(crate::c16_time::UTC0, 1704067200, 0);
    let mut msg = [0u8; 8];
    let mut ml = 0;
    let mu = sym::below(3) as usize;
    for i in 0..2 {
        if i < mu {
            ml += any_unit(&mut msg[ml..]);
        }
    }
    let mut tgt = [0u8; 4];
    let tl = any_unit(&mut tgt);
    let level = crate::util::any_level();
    let has_module = sym::any_bool();
    let has_file = sym::any_bool();
    let has_line = sym::any_bool();
    let mdc = sym::any_bool();
    unsafe {
        MDC_SET = mdc;
    }
    #[cfg(not(kani))]
    {
        log_mdc::clear();
        if mdc {
            log_mdc::insert("k", MDC_VALUE);
        }
    }
    let msg_s = unsafe { std::str::from_utf8_unchecked(&msg[..ml]) };
    let tgt_s = unsafe { std::str::from_utf8_unchecked(&tgt[..tl]) };
    let enc = PatternEncoder::new(pattern);
    let mut sink = Rec { buf: [0; CAP], len: 0, styles: 0, resets: 0 };
    let res = enc.encode(
        &mut sink,
        &Record::builder()
            .level(level)
            .target(tgt_s)
            .module_path(if has_module { Some("mod") } else { None })
            .file(if has_file { Some("f.rs") } else { None })
            .line(if has_line { Some(42) } else { None })
            .args(format_args!("{}", msg_s))
            .build(),
    );
    assert!(res.is_ok());
    let mut ctx = Ctx {
        level,
        msg: &msg[..ml],
        target: &tgt[..tl],
        module: if has_module { Some("mod") } else { None },
        file: if has_file { Some("f.rs") } else { None },
        line: if has_line { Some(42) } else { None },
        mdc,
        out: [0; CAP],
        n: 0,
        styles: 0,
        resets: 0,
    };
    ctx.render(items);
    assert!(sink.len == ctx.n, "C09: nothing added, dropped (length)");
    let mut i = 0;
    while i < CAP {
        if i < ctx.n {
            assert!(sink.buf[i] == ctx.out[i], "C09: output is the in-order concatenation of literal text and formatter values");
        }
        i += 1;
    }
    assert!(sink.styles == ctx.styles && sink.resets == ctx.resets, "C09/C18: highlight adds one style before and one reset after each group for styled levels, nothing else");
    cover!(ml >= 2, "a message of two units");
    if witness {
        assert!(false, "WITNESS");
    }
    std::mem::forget(enc);
}

use Item::*;
const P_BASIC: &[Item] = &[Level, Lit(" "), Msg, Lit(" at "), Module, Lit(" in "), File, Lit(":"), Line];
const P_ALIASES: &[Item] = &[Level, Msg, Module, File, Line, Target, Thread];
const P_ESC: &[Item] = &[Lit("{"), Msg, Lit("}("), Target, Lit(")\\")];
const P_IDS: &[Item] = &[ThreadId, Lit("-"), Tid, Lit("-"), Pid, Newline];
const P_MDC: &[Item] = &[Mdc("k", ""), Lit("|"), Mdc("k", "dflt")];
const P_NEST: &[Item] = &[Group(&[Lit("["), Group(&[Msg]), Lit("]")]), Target];
const P_HL: &[Item] = &[Highlight(&[Level, Lit(" "), Highlight(&[Msg])]), Lit("!")];
const P_DR: &[Item] = &[Debug(&[Lit("D"), Msg]), Release(&[Lit("R"), Target])];
const P_DATE: &[Item] = &[Date("2024", "%Y"), Lit(" "), Date("2024-01-01", "%Y-%m-%d"), Lit(" "), Msg];

macro_rules! pat_common {
    ($($rest:tt)*) => {
        harnesses! {
            common {
                #[cfg_attr(kani, kani::stub(<chrono::Local as chrono::TimeZone>::offset_from_utc_datetime, crate::c16_time::stub_offset_from_utc))]
                #[cfg_attr(kani, kani::stub(<chrono::Local as chrono::TimeZone>::offset_from_local_datetime, crate::c16_time::stub_offset_from_local))]
                #[cfg_attr(kani, kani::stub(chrono::Local::now, crate::c16_time::stub_local_now))]
                #[cfg_attr(kani, kani::stub(chrono::Utc::now, crate::c16_time::stub_utc_now))]
                #[cfg_attr(kani, kani::stub(log_mdc::get, crate::c09_pattern::stub_mdc_get))]
                #[cfg_attr(kani, kani::stub(thread_id::get, crate::c09_pattern::stub_thread_id_get))]
                #[cfg_attr(kani, kani::stub(std::process::id, crate::c09_pattern::stub_process_id))]
                #[cfg_attr(kani, kani::stub(std::backtrace::Backtrace::capture, crate::util::stub_backtrace_capture))]
                #[cfg_attr(kani, kani::stub(<anyhow::Error as std::ops::Drop>::drop, crate::util::stub_anyhow_drop))]
                #[cfg_attr(kani, kani::stub(<anyhow::Error as std::convert::From<std::io::Error>>::from, crate::util::stub_anyhow_from_cut))]
            }
            $($rest)*
        }
    };
}

pat_common! {
    #[kani::unwind(12)]
    fn pat_basic() { body("{l} {m} at {M} in {f}:{L}", P_BASIC, false) }
    #[kani::unwind(12)]
    fn pat_basic_witness() { body("{l} {m} at {M} in {f}:{L}", P_BASIC, true) }
    #[kani::unwind(12)]
    fn pat_aliases() { body("{level}{message}{module}{file}{line}{target}{thread}", P_ALIASES, false) }
    #[kani::unwind(12)]
    fn pat_escapes() { body("{{{m}}}(({t}))\\\\", P_ESC, false) }
    #[kani::unwind(12)]
    fn pat_ids() { body("{I}-{i}-{P}{n}", P_IDS, false) }
    #[kani::unwind(12)]
    fn pat_mdc() { body("{X(k)}|{X(k)(dflt)}", P_MDC, false) }
    #[kani::unwind(12)]
    fn pat_nested() { body("{([{({m})}])}{t}", P_NEST, false) }
    #[kani::unwind(12)]
    fn pat_highlight() { body("{h({l} {h({m})})}!", P_HL, false) }
    #[kani::unwind(12)]
    fn pat_debug_release() { body("{D(D{m})}{R(R{t})}", P_DR, false) }
    #[kani::unwind(12)]
    fn pat_date() { body("{d(%Y)(utc)} {date(%Y-%m-%d)(local)} {m}", P_DATE, false) }
}
