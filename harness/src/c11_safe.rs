//! C11: any pattern string is safe - constructing an encoder and encoding a record never
//! panics; errors surface as `{ERROR: ...}` markers while the preceding text still renders.
//! Unit under check: the real `Parser`, `From<Piece> for Chunk`, `PatternEncoder::{new,
//! encode}`, `Chunk::encode`.  Patterns are instance parameters with at most one free
//! character (free pattern text did not finish, DESIGN.md section 2).
use crate::c10_width::Sink;
use crate::sym;
use log::{Level, Record};
use log4rs::encode::pattern::PatternEncoder;
use log4rs::encode::Encode;

fn contains(hay: &[u8], n: usize, needle: &[u8]) -> bool {
    if needle.len() > n {
        return false;
    }
    let mut i = 0;
    while i + needle.len() <= n {
        let mut j = 0;
        let mut ok = true;
        while j < needle.len() {
            if hay[i + j] != needle[j] {
                ok = false;
            }
            j += 1;
        }
        if ok {
            return true;
        }
        i += 1;
    }
    false
}

/// `pattern` with the byte at `free_at` (if any) replaced by a solver-chosen byte of `alphabet`.
/// `expect_error`: the output must contain the marker; `prefix`: text that must render first.
pub fn body(pattern: &'static str, free_at: Option<usize>, alphabet: &'static [u8], expect_error: Option<bool>, prefix: &'static str, encode: bool, witness: bool) {
    let mut buf = [0u8; 48];
    let pb = pattern.as_bytes();
    let mut i = 0;
    while i < pb.len() {
        buf[i] = pb[i];
        i += 1;
    }
    if let Some(at) = free_at {
        let k = sym::below(alphabet.len() as u8) as usize;
        buf[at] = alphabet[k];
    }
    let text = unsafe { std::str::from_utf8_unchecked(&buf[..pb.len()]) };
    let enc = PatternEncoder::new(text);
    if encode {
        let mut sink = Sink { buf: [0; crate::c10_width::OUTCAP], len: 0, short: false };
        let record = Record::builder().level(Level::Info).target("t").args(format_args!("msg")).build();
        let res = enc.encode(&mut sink, &record);
        assert!(res.is_ok(), "C11: encoding returns");
        let n = if sink.len < crate::c10_width::OUTCAP { sink.len } else { crate::c10_width::OUTCAP };
        if let Some(e) = expect_error {
            assert!(contains(&sink.buf, n, b"{ERROR: ") == e, "C11: errors surface as a visible ERROR marker");
        }
        let p = prefix.as_bytes();
        let mut j = 0;
        while j < p.len() {
            assert!(j < n && sink.buf[j] == p[j], "C11: text preceding the error still renders");
            j += 1;
        }
    }
    cover!(true, "reached the end");
    if witness {
        assert!(false, "WITNESS");
    }
    std::mem::forget(enc);
}

const DIGITS: &[u8] = b"0123456789";
const SYNTAX: &[u8] = b"{}()\\:.<>m9 ";

harnesses! {
    common {
        #[cfg_attr(kani, kani::stub(<chrono::Local as chrono::TimeZone>::offset_from_utc_datetime, crate::c16_time::stub_offset_from_utc))]
        #[cfg_attr(kani, kani::stub(<chrono::Local as chrono::TimeZone>::offset_from_local_datetime, crate::c16_time::stub_offset_from_local))]
        #[cfg_attr(kani, kani::stub(chrono::Local::now, crate::c16_time::stub_local_now))]
        #[cfg_attr(kani, kani::stub(chrono::Utc::now, crate::c16_time::stub_utc_now))]
        #[cfg_attr(kani, kani::stub(log_mdc::get, crate::c09_pattern::stub_mdc_get))]
        #[cfg_attr(kani, kani::stub(thread_id::get, crate::c09_pattern::stub_thread_id_get))]
        #[cfg_attr(kani, kani::stub(std::process::id, crate::c09_pattern::stub_process_id))]
        #[cfg_attr(kani, kani::stub(std::backtrace::Backtrace::capture, crate::util::stub_backtrace_capture))]
        #[cfg_attr(kani, kani::stub(<anyhow::Error as std::ops::Drop>::drop, crate::util::stub_anyhow_drop))]
        #[cfg_attr(kani, kani::stub(<anyhow::Error as std::convert::From<std::io::Error>>::from, crate::util::stub_anyhow_from_cut))]
    }
    // widths: Parser::integer on long digit strings (2^64 = 18446744073709551616)
    #[kani::unwind(26)]
    fn width_20_digits() { body("{m:18446744073709551619}", None, DIGITS, None, "", false, false) }
    #[kani::unwind(26)]
    fn width_20_digits_witness() { body("{m:18446744073709551619}", None, DIGITS, None, "", false, true) }
    #[kani::unwind(28)]
    fn maxwidth_22_digits() { body("{m:.9999999999999999999999}", None, DIGITS, None, "", false, false) }
    // after the fix: a width that does not fit surfaces as an ERROR marker, the prefix still renders
    #[kani::unwind(28)]
    fn width_20_digits_encode() { body("ab{m:18446744073709551619}", None, DIGITS, Some(true), "ab", true, false) }
    #[kani::unwind(12)]
    fn width_small_encode() { body("ab{m:>5.3}", Some(6), DIGITS, Some(false), "ab", true, false) }
    // invalid strftime directive: must not panic at encode time
    #[kani::unwind(12)]
    fn date_bad_directive() { body("ab{d(%Q)}", None, DIGITS, None, "ab", true, false) }
    // syntax errors after a rendered prefix
    #[kani::unwind(12)]
    fn unknown_formatter() { body("ab{x}cd", None, DIGITS, Some(true), "ab", true, false) }
    #[kani::unwind(12)]
    fn unclosed() { body("ab{m", None, DIGITS, Some(true), "ab", true, false) }
    #[kani::unwind(12)]
    fn one_free_syntax_char() { body("a{m}b", Some(2), SYNTAX, None, "a", true, false) }
}
