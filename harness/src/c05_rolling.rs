//! C05 / C06 / C17 (appender part, F1): the rolling file appender never loses, duplicates,
//! reorders or splits records; the size shown to the policy is the true on-disk size; the size
//! trigger rolls exactly when the limit is exceeded.
//! Unit under check: the real `RollingFileAppenderBuilder::build`, `RollingFileAppender::
//! {append, get_writer}`, `LogWriter`, `LogFile::{roll, len_estimate}`, std's `BufWriter<File>`,
//! with a harness `Policy` that (a) compares `len_estimate()` with the true size of the active
//! file, (b) takes its decision from the solver or from the real `SizeTrigger` /
//! `OnStartUpTrigger`, (c) calls the real `LogFile::roll()` and then renames the active file
//! to the archive name (the documented `Roll` contract: afterwards the file is no longer at
//! the path).  The real rollers are decided separately (C07).
use crate::sym;
use crate::world::fs;
use log::Record;
use log4rs::append::rolling_file::policy::compound::trigger::{onstartup::OnStartUpTrigger, size::SizeTrigger, Trigger};
use log4rs::append::rolling_file::policy::Policy;
use log4rs::append::rolling_file::{LogFile, RollingFileAppender};
use log4rs::append::Append;
use log4rs::encode::{Encode, Write};

pub const MAXREC: usize = 3;
pub const MAXSTEP: usize = 4;

static mut REC_LEN: usize = 0;
static mut REC_VAL: u8 = 0;
/// decision plan (drawn by the harness body): DECIDE[k] for the k-th policy consultation
static mut DECIDE: [bool; 8] = [false; 8];
static mut CONSULT: usize = 0;
static mut ACTIVE: usize = 0;
static mut ARCHIVE: usize = 0;
/// what the policy saw / did, for the oracle
static mut LAST_ROLLED: bool = false;
static mut LEN_MISMATCH: bool = false;
static mut SEEN_LEN: u64 = 0;

#[derive(Debug)]
struct HEnc;
impl Encode for HEnc {
    fn encode(&self, w: &mut dyn Write, _r: &Record) -> anyhow::Result<()> {
        let (len, val) = unsafe { (REC_LEN, REC_VAL) };
        let buf = [val; MAXREC];
        if w.write_all(&buf[..len]).is_err() {
            // a failing write is outside this (fault-free) harness; constructing an anyhow error here
            // would put anyhow's error objects among the candidates of every io::Error drop
            crate::sym::cut();
        }
        Ok(())
    }
}

#[derive(Debug)]
enum Decide {
    Plan,
    Size(SizeTrigger),
    StartUp(OnStartUpTrigger),
}

#[derive(Debug)]
struct HPolicy {
    pre: bool,
    decide: Decide,
}
impl Policy for HPolicy {
    fn process(&self, log: &mut LogFile) -> anyhow::Result<()> {
        unsafe {
            // C06: the size shown to the policy equals the true size of the active file
            let true_len = match fs::get(ACTIVE) {
                Some((l, _)) => l as u64,
                None => 0,
            };
            SEEN_LEN = log.len_estimate();
            if SEEN_LEN != true_len {
                LEN_MISMATCH = true;
            }
            let k = CONSULT;
            CONSULT += 1;
            let roll = match &self.decide {
                Decide::Plan => DECIDE[k],
                Decide::Size(t) => match t.trigger(log) {
                    Ok(b) => b,
                    Err(_) => false,
                },
                Decide::StartUp(t) => match t.trigger(log) {
                    Ok(b) => b,
                    Err(_) => false,
                },
            };
            LAST_ROLLED = roll;
            if roll && k == LEAVE_AT {
                // a rotation that failed after LogFile::roll(): the writer is closed, the file is still
                // at the path with its acknowledged records (for the appender the state is the same
                // whether or not the policy reports the failure; reporting it would construct an
                // anyhow error, which does not fit the solver - DESIGN.md 9.1 rule 17)
                log.roll();
                LAST_ROLLED = false;
            } else if roll {
                log.roll();
                // abstract roller: the file is no longer at the path afterwards
                let from = fs::path(ACTIVE);
                let to = fs::path(ARCHIVE);
                if std::fs::rename(&from, &to).is_err() {
                    panic!("the abstract roll failed on a fault-free disk");
                }
            }
        }
        Ok(())
    }
    fn is_pre_process(&self) -> bool {
        self.pre
    }
}

#[derive(Clone, Copy, PartialEq)]
pub enum Mode {
    /// decisions are the solver's
    Plan,
    /// real SizeTrigger with a symbolic limit 0..=6
    Size,
    /// real OnStartUpTrigger with symbolic min_size 0..=3
    StartUp,
}

/// One history: build over an optional pre-existing file, then `nsteps` appends (with
/// `restart`: after the first append the appender may be dropped and rebuilt in append mode).
pub fn body(mode: Mode, pre_process: bool, nsteps: usize, restart: bool, witness: bool) {
    body_gen(mode, pre_process, nsteps, restart, witness, None, None)
}

/// Constant-size family (DESIGN.md 9.8, rule 23): with `lens` / `pre_fixed` the record lengths and
/// the amount of pre-existing content are instance parameters, so that every copy on the write
/// path has a constant size; the decisions (or the trigger's limit), the open mode and the
/// restart stay solver variables.
pub fn body_sized(mode: Mode, pre_process: bool, lens: &'static [usize], pre: usize, restart: bool, witness: bool) {
    body_gen(mode, pre_process, lens.len(), restart, witness, Some(lens), Some(pre))
}

/// As `body_sized` in plan mode, with the decisions of the first consultations fixed by the
/// instance (`prefix`) and only the remaining ones left to the solver: the state before the last
/// append is then a concrete reachable appender state (writer open or not, file rolled away or not).
pub fn body_prefixed(pre_process: bool, lens: &'static [usize], pre: usize, prefix: &'static [bool], witness: bool) {
    unsafe {
        PREFIX = Some(prefix);
    }
    body_gen(Mode::Plan, pre_process, lens.len(), false, witness, Some(lens), Some(pre));
    unsafe {
        PREFIX = None;
    }
}
static mut PREFIX: Option<&'static [bool]> = None;
/// consultation index at which a decided roll closes the writer but leaves the file in place
static mut LEAVE_AT: usize = usize::MAX;

/// C08 at the appender level: the roll decided at consultation `leave_at` fails after
/// `LogFile::roll()` (file left in place); the following appends must keep every acknowledged record.
pub fn body_failed_roll(lens: &'static [usize], pre: usize, prefix: &'static [bool], leave_at: usize, witness: bool) {
    unsafe {
        LEAVE_AT = leave_at;
    }
    body_prefixed(false, lens, pre, prefix, witness);
    unsafe {
        LEAVE_AT = usize::MAX;
    }
}

pub fn body_gen(mode: Mode, pre_process: bool, nsteps: usize, restart: bool, witness: bool, lens: Option<&'static [usize]>, pre_fixed: Option<usize>) {
    fs::reset();
    #[cfg(kani)]
    crate::wfile::reset();
    let active = fs::add_name("a.log", 0);
    let archive = fs::add_name("a.0", 0);
    unsafe {
        ACTIVE = active;
        ARCHIVE = archive;
        CONSULT = 0;
        LEN_MISMATCH = false;
    }
    // pre-existing content
    let pre = match pre_fixed {
        Some(p) => p,
        None => sym::below(3) as usize,
    };
    let pre_bytes = [0xA1u8, 0xA2];
    if pre > 0 {
        fs::put(active, &pre_bytes[..pre]);
    }
    let append_mode = if restart { true } else { sym::any_bool() };
    let limit = sym::below(7) as u64;
    let min_size = sym::below(4) as u64;
    for k in 0..8 {
        unsafe {
            DECIDE[k] = match PREFIX {
                Some(p) if k < p.len() => p[k],
                _ => {
                    if mode == Mode::Plan {
                        sym::any_bool()
                    } else {
                        false
                    }
                }
            };
        }
    }
    let mk_policy = || -> Box<dyn Policy> {
        Box::new(HPolicy {
            pre: if mode == Mode::Size { false } else if mode == Mode::StartUp { true } else { pre_process },
            decide: match mode {
                Mode::Plan => Decide::Plan,
                Mode::Size => Decide::Size(SizeTrigger::new(limit)),
                Mode::StartUp => Decide::StartUp(OnStartUpTrigger::new(min_size)),
            },
        })
    };
    let pre_eff = match mode {
        Mode::Size => false,
        Mode::StartUp => true,
        Mode::Plan => pre_process,
    };
    let path = fs::path(active);
    let build = |append: bool| -> RollingFileAppender {
        match RollingFileAppender::builder().encoder(Box::new(HEnc)).append(append).build(&path, mk_policy()) {
            Ok(a) => a,
            Err(_) => panic!("build failed on a fault-free disk"),
        }
    };
    let mut app = build(append_mode);

    // ---- stream model -----------------------------------------------------------------
    let mut m_active = [0u8; fs::CAP];
    let mut m_alen: Option<usize> = Some(0);
    if append_mode {
        for i in 0..pre {
            m_active[i] = pre_bytes[i];
        }
        m_alen = Some(pre);
    }
    let mut m_arch = [0u8; fs::CAP];
    let mut m_arlen: Option<usize> = None;
    check(active, &m_active, m_alen);
    check(archive, &m_arch, m_arlen);

    let record = Record::builder().build();
    let mut rolled_any = false;
    let mut first_consult = true;
    for k in 0..nsteps {
        if restart && k == 1 && sym::any_bool() {
            std::mem::forget(app);
            // a restarted appender on the same path, append mode: nothing acknowledged is lost
            app = build(true);
            first_consult = true;
            if m_alen.is_none() {
                m_alen = Some(0);
            }
            check(active, &m_active, m_alen);
        }
        let len = match lens {
            Some(l) => l[k],
            None => sym::below(MAXREC as u8 + 1) as usize,
        };
        unsafe {
            REC_LEN = len;
            REC_VAL = 1 + k as u8;
        }
        let before_consults = unsafe { CONSULT };
        let size_before = m_alen.unwrap_or(0);
        let res = app.append(&record);
        assert!(res.is_ok(), "append succeeds on a fault-free disk");
        assert!(unsafe { CONSULT } == before_consults + 1, "the policy is consulted exactly once per append");
        assert!(!unsafe { LEN_MISMATCH }, "C06: the size shown to the policy equals the true on-disk size of the active file");
        let rolled = unsafe { LAST_ROLLED };
        // ---- what the decision had to be for the real triggers ----
        match mode {
            Mode::Size => {
                let size_after = size_before + len;
                assert!(rolled == (size_after as u64 > limit), "C06: rotation exactly after the appends that leave the file larger than the limit");
            }
            Mode::StartUp => {
                let exp = first_consult && (size_before as u64) >= min_size;
                assert!(rolled == exp, "C17: at most one rotation, on the first record, iff the existing file has min_size bytes");
            }
            Mode::Plan => {}
        }
        first_consult = false;
        // ---- stream model step ----
        if m_alen.is_none() {
            m_alen = Some(0);
        }
        if pre_eff {
            if rolled {
                m_arch = m_active;
                m_arlen = m_alen;
                m_alen = Some(0);
            }
            let mut n = m_alen.unwrap();
            for _ in 0..len {
                m_active[n] = 1 + k as u8;
                n += 1;
            }
            m_alen = Some(n);
        } else {
            let mut n = m_alen.unwrap();
            for _ in 0..len {
                m_active[n] = 1 + k as u8;
                n += 1;
            }
            m_alen = Some(n);
            if rolled {
                m_arch = m_active;
                m_arlen = m_alen;
                m_alen = None;
            }
        }
        if rolled {
            rolled_any = true;
        }
        // C05: every acknowledged record is stored whole in exactly one file, in write order
        check(active, &m_active, m_alen);
        check(archive, &m_arch, m_arlen);
        if mode == Mode::Size {
            if let Some(n) = m_alen {
                assert!(n as u64 <= limit, "C06: after every append the active file holds at most the limit or has just been rotated away");
            }
        }
    }
    cover!(rolled_any, "at least one rotation happened");
    let prefix_rolls = unsafe { matches!(PREFIX, Some(p) if p.iter().any(|&b| b)) };
    cover!(prefix_rolls || (!rolled_any && (m_alen.unwrap_or(0) > 2 || lens.is_some())), "no rotation, several bytes in the active file");
    if witness {
        assert!(false, "WITNESS");
    }
    std::mem::forget(app);
    fs::cleanup();
}

fn check(slot: usize, exp: &[u8; fs::CAP], n: Option<usize>) {
    match (fs::get(slot), n) {
        (Some((len, data)), Some(n)) => {
            assert!(len == n, "C05: file content is the expected concatenation of whole records (length)");
            let mut i = 0;
            while i < fs::CAP {
                if i < n {
                    assert!(data[i] == exp[i], "C05: file content is the expected concatenation of whole records, in write order");
                }
                i += 1;
            }
        }
        (None, None) => {}
        (None, Some(0)) => {}
        _ => assert!(false, "C05: a file is present / absent contrary to the record stream"),
    }
}

harnesses! {
    common {
        #[cfg_attr(kani, kani::stub(std::fs::OpenOptions::append, crate::wfile::stub_oo_append))]
        #[cfg_attr(kani, kani::stub(std::fs::OpenOptions::truncate, crate::wfile::stub_oo_truncate))]
        #[cfg_attr(kani, kani::stub(std::fs::OpenOptions::open, crate::wfile::stub_open))]
        #[cfg_attr(kani, kani::stub(std::fs::File::metadata, crate::wfile::stub_metadata))]
        #[cfg_attr(kani, kani::stub(std::fs::Metadata::len, crate::wfile::stub_metadata_len))]
        #[cfg_attr(kani, kani::stub(<std::fs::File as std::io::Write>::write, crate::wfile::stub_file_write))]
        #[cfg_attr(kani, kani::stub(<std::fs::File as std::io::Write>::flush, crate::wfile::stub_file_flush))]
        #[cfg_attr(kani, kani::stub(<std::fs::File as std::io::Seek>::seek, crate::wfile::stub_file_seek))]
        #[cfg_attr(kani, kani::stub(<std::fs::File as std::io::Seek>::stream_position, crate::wfile::stub_file_stream_position))]
        #[cfg_attr(kani, kani::stub(<std::os::fd::OwnedFd as std::ops::Drop>::drop, crate::wfile::stub_ownedfd_drop))]
        #[cfg_attr(kani, kani::stub(std::fs::create_dir_all, crate::world::fs::stub_create_dir_all))]
        #[cfg_attr(kani, kani::stub(std::fs::rename, crate::world::fs::stub_rename))]
        #[cfg_attr(kani, kani::stub(std::env::var, crate::world::env::stub_var))]
        #[cfg_attr(kani, kani::stub(std::backtrace::Backtrace::capture, crate::util::stub_backtrace_capture))]
        #[cfg_attr(kani, kani::stub(<anyhow::Error as std::ops::Drop>::drop, crate::util::stub_anyhow_drop))]
        #[cfg_attr(kani, kani::stub(<anyhow::Error as std::convert::From<std::io::Error>>::from, crate::util::stub_anyhow_from_cut))]
        #[cfg_attr(kani, kani::stub(<log4rs::encode::pattern::PatternEncoder as log4rs::encode::Encode>::encode, crate::util::stub_pattern_encode_cut))]
        #[cfg_attr(kani, kani::stub(log4rs::encode::pattern::PatternEncoder::new, crate::util::stub_pattern_new_cut))]
    }
    // constant-size family
    #[kani::unwind(10)]
    fn sized_plan_post_2x1() { body_sized(Mode::Plan, false, &[2, 1], 1, false, false) }
    #[kani::unwind(10)]
    fn sized_plan_post_2x1_witness() { body_sized(Mode::Plan, false, &[2, 1], 1, false, true) }
    #[kani::unwind(10)]
    fn sized_plan_post_2() { body_sized(Mode::Plan, false, &[2], 1, false, false) }
    #[kani::unwind(10)]
    fn sized_size_2() { body_sized(Mode::Size, false, &[2], 1, false, false) }
    // two and three appends, earlier decisions fixed, the last one symbolic
    #[kani::unwind(10)]
    fn pfx_post_2x1_keep() { body_prefixed(false, &[2, 1], 1, &[false], false) }
    #[kani::unwind(10)]
    fn pfx_post_2x1_roll() { body_prefixed(false, &[2, 1], 1, &[true], false) }
    #[kani::unwind(10)]
    fn pfx_post_2x1_keep_witness() { body_prefixed(false, &[2, 1], 1, &[false], true) }
    #[kani::unwind(10)]
    fn pfx_post_1x0x2_keep_keep() { body_prefixed(false, &[1, 0, 2], 2, &[false, false], false) }
    #[kani::unwind(10)]
    fn pfx_post_2x2x2_roll_roll() { body_prefixed(false, &[2, 2, 2], 0, &[true, true], false) }
    #[kani::unwind(10)]
    fn pfx_post_3x0_roll() { body_prefixed(false, &[3, 0], 2, &[true], false) }
    // C08: a failed roll (file left in place) at the first consultation, then one or two more appends
    #[kani::unwind(10)]
    fn failed_roll_2x1() { body_failed_roll(&[2, 1], 1, &[true], 0, false) }
    #[kani::unwind(10)]
    fn failed_roll_2x1_witness() { body_failed_roll(&[2, 1], 1, &[true], 0, true) }
    #[kani::unwind(10)]
    fn failed_roll_1x2x1() { body_failed_roll(&[1, 2, 1], 0, &[true, false], 0, false) }
    #[kani::unwind(10)]
    fn pfx_pre_2x1_keep() { body_prefixed(true, &[2, 1], 1, &[false], false) }
    #[kani::unwind(10)]
    fn pfx_pre_2x1_roll() { body_prefixed(true, &[2, 1], 1, &[true], false) }
    #[kani::unwind(10)]
    fn pfx_post_1x0x2_roll_keep() { body_prefixed(false, &[1, 0, 2], 2, &[true, false], false) }
    #[kani::unwind(10)]
    fn pfx_pre_1x2x1_keep_roll() { body_prefixed(true, &[1, 2, 1], 0, &[false, true], false) }
    #[kani::unwind(10)]
    fn sized_startup_2() { body_sized(Mode::StartUp, true, &[2], 2, false, false) }
    #[kani::unwind(10)]
    fn sized_startup_2_empty() { body_sized(Mode::StartUp, true, &[2], 0, false, false) }
    #[kani::unwind(10)]
    fn sized_size_3_pre2() { body_sized(Mode::Size, false, &[3], 2, false, false) }
    #[kani::unwind(10)]
    fn sized_plan_pre_2() { body_sized(Mode::Plan, true, &[2], 1, false, false) }
    #[kani::unwind(10)]
    fn sized_plan_pre_2x1() { body_sized(Mode::Plan, true, &[2, 1], 1, false, false) }
    #[kani::unwind(10)]
    fn sized_size_3x2x1() { body_sized(Mode::Size, false, &[3, 2, 1], 0, false, false) }
    #[kani::unwind(10)]
    fn sized_startup_1x2() { body_sized(Mode::StartUp, true, &[1, 2], 2, false, false) }
    #[kani::unwind(10)]
    fn sized_plan_post_1x0x2_restart() { body_sized(Mode::Plan, false, &[1, 0, 2], 2, true, false) }
    #[kani::unwind(10)]
    fn roll_plan_post_1() { body(Mode::Plan, false, 1, false, false) }
    #[kani::unwind(10)]
    fn roll_plan_post_1_witness() { body(Mode::Plan, false, 1, false, true) }
    #[kani::unwind(10)]
    fn roll_plan_pre_1() { body(Mode::Plan, true, 1, false, false) }
    #[kani::unwind(10)]
    fn roll_plan_post_2() { body(Mode::Plan, false, 2, false, false) }
    #[kani::unwind(10)]
    fn roll_plan_pre_2() { body(Mode::Plan, true, 2, false, false) }
    #[kani::unwind(10)]
    fn roll_plan_post_3_restart() { body(Mode::Plan, false, 3, true, false) }
    #[kani::unwind(10)]
    fn roll_size_2() { body(Mode::Size, false, 2, false, false) }
    #[kani::unwind(10)]
    fn roll_size_3_restart() { body(Mode::Size, false, 3, true, false) }
    #[kani::unwind(10)]
    fn roll_startup_2() { body(Mode::StartUp, true, 2, false, false) }
}
