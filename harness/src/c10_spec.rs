//! C10 (spec half): the text of a format spec means what the documented grammar says -
//! `format_spec := [[fill]align][min_width][.max_width]`, `align := '<' | '>'`.
//! Unit under check: the real `Parser::parameters` (with `consume`, `integer` and the
//! `Peekable<CharIndices>` it walks), door-opener `verif_parse_parameters`.
use crate::sym;
use log4rs::encode::pattern::verif_parse_parameters;

const ALPHABET: [u8; 10] = [b'<', b'>', b'.', b'0', b'1', b'9', b'*', b'}', b'x', b':'];

fn digit(b: u8) -> Option<usize> {
    if b >= b'0' && b <= b'9' {
        Some((b - b'0') as usize)
    } else {
        None
    }
}

/// `prefix`: fixed bytes right after the ':' (a multi-byte fill character in some instances),
/// followed by `free` symbolic bytes over the alphabet, then '}'.
pub fn body(prefix: &[u8], free: usize, witness: bool) {
    let mut b = [0u8; 12];
    b[0] = b':';
    let mut n = 1;
    for &x in prefix {
        b[n] = x;
        n += 1;
    }
    for _ in 0..free {
        b[n] = ALPHABET[sym::below(ALPHABET.len() as u8) as usize];
        n += 1;
    }
    b[n] = b'}';
    n += 1;
    let text = unsafe { std::str::from_utf8_unchecked(&b[..n]) };
    let (got, rest) = verif_parse_parameters(text);

    // ---- reference, written from the grammar ----
    let mut i = 1;
    let mut fill_lo = 0usize; // the fill character is the bytes b[fill_lo..fill_hi]; empty = default ' '
    let mut fill_hi = 0usize;
    let mut right = false;
    // length of the scalar value at i (the prefix is the only place a multi-byte one can be)
    let clen = if i < n {
        if b[i] < 0x80 {
            1
        } else if b[i] < 0xE0 {
            2
        } else if b[i] < 0xF0 {
            3
        } else {
            4
        }
    } else {
        0
    };
    if clen > 0 && i + clen < n && (b[i + clen] == b'<' || b[i + clen] == b'>') {
        fill_lo = i;
        fill_hi = i + clen;
        i += clen;
    }
    if i < n && b[i] == b'<' {
        i += 1;
    } else if i < n && b[i] == b'>' {
        right = true;
        i += 1;
    }
    let mut min: Option<usize> = None;
    let mut k = 0;
    while k < 8 {
        if i < n {
            if let Some(d) = digit(b[i]) {
                min = Some(min.unwrap_or(0) * 10 + d);
                i += 1;
            }
        }
        k += 1;
    }
    let mut max: Option<usize> = None;
    if i < n && b[i] == b'.' {
        i += 1;
        let mut k = 0;
        while k < 8 {
            if i < n {
                if let Some(d) = digit(b[i]) {
                    max = Some(max.unwrap_or(0) * 10 + d);
                    i += 1;
                }
            }
            k += 1;
        }
    }

    let got = match got {
        Some(g) => g,
        None => {
            assert!(false, "C10: a spec of at most a few digits is never an error");
            return;
        }
    };
    assert!(rest == i, "C10: the spec ends where the grammar says it ends");
    assert!(got.right == right, "C10: alignment");
    assert!(got.min_width == min, "C10: minimum width");
    assert!(got.max_width == max, "C10: maximum width");
    let mut fb = [0u8; 4];
    let fl = got.fill.encode_utf8(&mut fb).len();
    if fill_hi == fill_lo {
        assert!(got.fill == ' ', "C10: the default fill is a space");
    } else {
        assert!(fl == fill_hi - fill_lo, "C10: fill character (length)");
        let mut j = 0;
        while j < 4 {
            if j < fl {
                assert!(fb[j] == b[fill_lo + j], "C10: fill character");
            }
            j += 1;
        }
    }
    cover!(free < 4 || (fill_hi > fill_lo && min.is_some() && max.is_some()), "fill, alignment and both widths given");
    cover!(free >= 4 || (fill_hi > fill_lo && (min.is_some() || max.is_some())), "fill, alignment and a width given");
    cover!(!prefix.is_empty() || (right && fill_hi == fill_lo), "alignment without a fill character");
    cover!(prefix.is_empty() || fill_hi == fill_lo, "a multi-byte character after ':' that is not a fill (no alignment follows)");
    cover!(min.is_none() && max.is_some(), "maximum width only");
    if witness {
        assert!(false, "WITNESS");
    }
}

/// C11 (absurd widths): ':' + `n` free decimal digits + '}' - the width is parsed exactly when it
/// fits `usize`, otherwise the parser reports an error; it never panics or wraps.
pub fn body_digits(n: usize, witness: bool) {
    body_digits_prefix(b"", n, witness)
}

/// As above behind a fixed digit prefix (17 digits of 2^64 - 1 put the free digits across the boundary).
pub fn body_digits_prefix(prefix: &[u8], n: usize, witness: bool) {
    let mut b = [0u8; 28];
    b[0] = b':';
    let mut len = 1;
    let mut val: Option<usize> = Some(0);
    for &c in prefix {
        b[len] = c;
        len += 1;
        val = match val {
            Some(v) => match v.checked_mul(10) {
                Some(m) => m.checked_add((c - b'0') as usize),
                None => None,
            },
            None => None,
        };
    }
    for _ in 0..n {
        let d = sym::below(10);
        b[len] = b'0' + d;
        len += 1;
        val = match val {
            Some(v) => match v.checked_mul(10) {
                Some(m) => m.checked_add(d as usize),
                None => None,
            },
            None => None,
        };
    }
    b[len] = b'}';
    len += 1;
    let text = unsafe { std::str::from_utf8_unchecked(&b[..len]) };
    let (got, rest) = verif_parse_parameters(text);
    match (got, val) {
        (Some(g), Some(v)) => {
            assert!(g.min_width == Some(v) && g.max_width.is_none(), "C11: a width that fits is parsed exactly");
            assert!(rest == len - 1, "C11: all digits are consumed");
        }
        (None, None) => {}
        _ => assert!(false, "C11: a width is an error exactly when it does not fit usize"),
    }
    cover!(val.is_none(), "a width that does not fit");
    cover!(val.is_some(), "a width that fits");
    if witness {
        assert!(false, "WITNESS");
    }
}

harnesses! {
    common {
        #[cfg_attr(kani, kani::stub(std::backtrace::Backtrace::capture, crate::util::stub_backtrace_capture))]
    }
    // ':' + 5 free bytes + '}'
    #[kani::unwind(10)]
    fn spec_free5() { body(&[], 5, false) }
    #[kani::unwind(10)]
    fn spec_free5_witness() { body(&[], 5, true) }
    // ':' + 'é' (2 bytes) + 4 free bytes + '}'
    #[kani::unwind(10)]
    fn spec_fill2_free4() { body(&[0xC3, 0xA9], 4, false) }
    // ':' + '€' (3 bytes) + 4 free bytes + '}'
    #[kani::unwind(10)]
    fn spec_fill3_free4() { body(&[0xE2, 0x82, 0xAC], 4, false) }
    // ':' + U+1F600 (4 bytes) + 3 free bytes + '}'
    #[kani::unwind(10)]
    fn spec_fill4_free3() { body(&[0xF0, 0x9F, 0x98, 0x80], 3, false) }
    #[kani::unwind(12)]
    fn spec_free7() { body(&[], 7, false) }
    #[kani::unwind(24)]
    fn digits_boundary3() { body_digits_prefix(b"18446744073709551", 3, false) }
    #[kani::unwind(24)]
    fn digits_boundary3_witness() { body_digits_prefix(b"18446744073709551", 3, true) }
    #[kani::unwind(24)]
    fn digits20() { body_digits(20, false) }
    #[kani::unwind(24)]
    fn digits20_witness() { body_digits(20, true) }
    #[kani::unwind(24)]
    fn digits21() { body_digits(21, false) }
}
