//! C10 (spec half): the text of a format spec means what the documented grammar says -
//! `format_spec := [[fill]align][min_width][.max_width]`, `align := '<' | '>'`.
//! Unit under check: the real `Parser::parameters` (with `consume`, `integer` and the
//! `Peekable<CharIndices>` it walks), door-opener `verif_parse_parameters`.
use crate::sym;
use log4rs::encode::pattern::verif_parse_parameters;

const ALPHABET: [u8; 10] = [b'<', b'>', b'.', b'0', b'1', b'9', b'*', b'}', b'x', b':'];

fn digit(b: u8) -> Option<usize> {
    if b >= b'0' && b <= b'9' {
        Some((b - b'0') as usize)
    } else {
        None
    }
}

/// `prefix`: fixed bytes right after the ':' (a multi-byte fill character in some instances),
/// followed by `free` symbolic bytes over the alphabet, then '}'.
pub fn body(prefix: &[u8], free: usize, witness: bool) {
    let mut b = [0u8; 12];
    b[0] = b':';
    let mut n = 1;
    for &x in prefix {
        b[n] = x;
        n += 1;
    }
    for _ in 0..free {
        b[n] = ALPHABET[sym::below(ALPHABET.len() as u8) as usize];
        n += 1;
    }
    b[n] = b'}';
    n += 1;
    let text = unsafe { std::str::from_utf8_unchecked(&b[..n]) };
    let (got, rest) = verif_parse_parameters(text);

    // ---- reference, written from the grammar ----
    let mut i = 1;
    let mut fill_lo = 0usize; // the fill character is the bytes b[fill_lo..fill_hi]; empty = default ' '
    let mut fill_hi = 0usize;
    let mut right = false;
    // length of the scalar value at i (the prefix is the only place a multi-byte one can be)
    let clen = if i < n {
        if b[i] < 0x80 {
            1
        } else if b[i] < 0xE0 {
            2
        } else if b[i] < 0xF0 {
            3
        } else {
            4
        }
    } else {
        0
    };
    if clen > 0 && i + clen < n && (b[i + clen] == b'<' || b[i + clen] == b'>') {
        fill_lo = i;
        fill_hi = i + clen;
        i += clen;
    }
    if i < n && b[i] == b'<' {
        i += 1;
    } else if i < n && b[i] == b'>' {
        right = true;
        i += 1;
    }
    let mut min: Option<usize> = None;
    let mut k = 0;
    while k < 8 {
        if i < n {
            if let Some(d) = digit(b[i]) {
                min = Some(min.unwrap_or(0) * 10 + d);
                i += 1;
            }
        }
        k += 1;
    }
    let mut max: Option<usize> = None;
    if i < n && b[i] == b'.' {
        i += 1;
        let mut k = 0;
        while k < 8 {
            if i < n {
                if let Some(d) = digit(b[i]) {
                    max = Some(max.unwrap_or(0) * 10 + d);
                    i += 1;
                }
            }
            k += 1;
        }
    }

    let got = match got {
        Some(g) => g,
        None => {
            assert!(false, "C10: a spec of at most a few digits is never an error");
            return;
        }
    };
    assert!(rest == i, "C10: the spec ends where the grammar says it ends");
    assert!(got.right == right, "C10: alignment");
    assert!(got.min_width == min, "C10: minimum width");
    assert!(got.max_width == max, "C10: maximum width");
    let mut fb = [0u8; 4];
    let fl = got.fill.encode_utf8(&mut fb).len();
    if fill_hi == fill_lo {
        assert!(got.fill == ' ', "C10: the default fill is a space");
    } else {
        assert!(fl == fill_hi - fill_lo, "C10: fill character (length)");
        let mut j = 0;
        while j < 4 {
            if j < fl {
                assert!(fb[j] == b[fill_lo + j], "C10: fill character");
            }
            j += 1;
        }
    }
    cover!(free < 4 || (fill_hi > fill_lo && min.is_some() && max.is_some()), "fill, alignment and both widths given");
    cover!(free >= 4 || (fill_hi > fill_lo && (min.is_some() || max.is_some())), "fill, alignment and a width given");
    cover!(!prefix.is_empty() || (right && fill_hi == fill_lo), "alignment without a fill character");
    cover!(prefix.is_empty() || fill_hi == fill_lo, "a multi-byte character after ':' that is not a fill (no alignment follows)");
    cover!(min.is_none() && max.is_some(), "maximum width only");
    if witness {
        assert!(false, "WITNESS");
    }
}

harnesses! {
    common {
        #[cfg_attr(kani, kani::stub(std::backtrace::Backtrace::capture, crate::util::stub_backtrace_capture))]
    }
    // ':' + 5 free bytes + '}'
    #[kani::unwind(10)]
    fn spec_free5() { body(&[], 5, false) }
    #[kani::unwind(10)]
    fn spec_free5_witness() { body(&[], 5, true) }
    // ':' + 'é' (2 bytes) + 4 free bytes + '}'
    #[kani::unwind(10)]
    fn spec_fill2_free4() { body(&[0xC3, 0xA9], 4, false) }
    // ':' + '€' (3 bytes) + 4 free bytes + '}'
    #[kani::unwind(10)]
    fn spec_fill3_free4() { body(&[0xE2, 0x82, 0xAC], 4, false) }
    // ':' + U+1F600 (4 bytes) + 3 free bytes + '}'
    #[kani::unwind(10)]
    fn spec_fill4_free3() { body(&[0xF0, 0x9F, 0x98, 0x80], 3, false) }
    #[kani::unwind(12)]
    fn spec_free7() { body(&[], 7, false) }
}
