//! Trigger and policy units (C06, C17, parts of C05): the real `SizeTrigger::trigger`,
//! `OnStartUpTrigger::{new, trigger}`, `CompoundPolicy::{process, is_pre_process}` on
//! `LogFile` values built by the `verif_with_log_file` door-opener.
use crate::sym;
use crate::util::TagErr;
use log4rs::append::rolling_file::policy::compound::{
    roll::Roll,
    trigger::{onstartup::OnStartUpTrigger, size::SizeTrigger, Trigger},
    CompoundPolicy,
};
use log4rs::append::rolling_file::policy::Policy;
use log4rs::append::rolling_file::{verif_with_log_file, LogFile};
use std::path::Path;

fn fire<T: Trigger>(t: &T, len: u64) -> bool {
    verif_with_log_file(Path::new("/l/a"), len, |f| match t.trigger(f) {
        Ok(b) => b,
        Err(_) => panic!("trigger returned an error"),
    })
}

/// C06: the size trigger asks for a roll exactly when the file is larger than the limit.
pub fn body_size(witness: bool) {
    let limit = sym::any_u64();
    let len = sym::any_u64();
    let t = SizeTrigger::new(limit);
    assert!(fire(&t, len) == (len > limit), "C06: roll exactly when the active file is larger than the limit");
    assert!(!t.is_pre_process(), "the size trigger decides after the record is written");
    cover!(len == limit, "size equals the limit: no roll");
    cover!(limit == 0 && len == 1, "limit 0");
    if witness {
        assert!(false, "WITNESS");
    }
}

/// C17: at most one `true`, only on the first call, iff the size at that moment >= min_size.
pub fn body_onstartup(witness: bool) {
    let min_size = sym::any_u64();
    let t = OnStartUpTrigger::new(min_size);
    assert!(t.is_pre_process(), "the start-up trigger decides before the first record is written");
    let l0 = sym::any_u64();
    let l1 = sym::any_u64();
    let l2 = sym::any_u64();
    let r0 = fire(&t, l0);
    let r1 = fire(&t, l1);
    let r2 = fire(&t, l2);
    assert!(r0 == (l0 >= min_size), "C17: the first call rolls iff the existing file is at least min_size bytes");
    assert!(!r1 && !r2, "C17: at most one rotation in the lifetime of the trigger");
    cover!(r0 && l1 >= min_size, "rolled at start-up, later sizes also above min_size");
    cover!(!r0 && l1 >= min_size, "too small at start-up, bigger later: still no roll");
    cover!(min_size == 0 && l0 == 0, "min_size 0 and an empty file");
    if witness {
        assert!(false, "WITNESS");
    }
}

static mut TRIG_CALLS: u8 = 0;
static mut ROLL_CALLS: u8 = 0;
static mut TRIG_ANSWER: u8 = 0; // 0 false, 1 true, 2 error
static mut ROLL_FAILS: bool = false;
static mut PRE: bool = false;

#[derive(Debug)]
struct HT;
impl Trigger for HT {
    fn trigger(&self, _f: &LogFile) -> anyhow::Result<bool> {
        unsafe {
            TRIG_CALLS += 1;
            match TRIG_ANSWER {
                0 => Ok(false),
                1 => Ok(true),
                _ => Err(anyhow::Error::new(TagErr(1))),
            }
        }
    }
    fn is_pre_process(&self) -> bool {
        unsafe { PRE }
    }
}
#[derive(Debug)]
struct HR;
impl Roll for HR {
    fn roll(&self, file: &Path) -> anyhow::Result<()> {
        unsafe {
            ROLL_CALLS += 1;
            assert!(file.as_os_str().len() == 4, "the roller gets the log file's path");
            if ROLL_FAILS {
                return Err(anyhow::Error::new(TagErr(2)));
            }
        }
        Ok(())
    }
}

/// CompoundPolicy: the trigger is consulted exactly once per process(); the roller runs exactly
/// when it said yes; errors of either are returned; is_pre_process is the trigger's.
pub fn body_compound(witness: bool) {
    unsafe {
        TRIG_CALLS = 0;
        ROLL_CALLS = 0;
        TRIG_ANSWER = sym::below(3);
        ROLL_FAILS = sym::any_bool();
        PRE = sym::any_bool();
    }
    let p = CompoundPolicy::new(Box::new(HT), Box::new(HR));
    assert!(p.is_pre_process() == unsafe { PRE });
    let res = verif_with_log_file(Path::new("/l/a"), 7, |f| p.process(f));
    let (ta, rf) = unsafe { (TRIG_ANSWER, ROLL_FAILS) };
    assert!(unsafe { TRIG_CALLS } == 1, "the trigger is consulted exactly once");
    assert!(unsafe { ROLL_CALLS } == if ta == 1 { 1 } else { 0 }, "the roller runs exactly when the trigger asks for it");
    let exp_ok = ta == 0 || (ta == 1 && !rf);
    assert!(res.is_ok() == exp_ok, "errors of trigger and roller are returned to the appender");
    cover!(ta == 1 && rf, "roller fails");
    cover!(ta == 2, "trigger fails");
    if witness {
        assert!(false, "WITNESS");
    }
    std::mem::forget(res);
    std::mem::forget(p);
}

harnesses! {
    common {
        #[cfg_attr(kani, kani::stub(std::backtrace::Backtrace::capture, crate::util::stub_backtrace_capture))]
        #[cfg_attr(kani, kani::stub(<anyhow::Error as std::ops::Drop>::drop, crate::util::stub_anyhow_drop))]
    }
    #[kani::unwind(4)]
    fn size_trigger() { body_size(false) }
    #[kani::unwind(4)]
    fn size_trigger_witness() { body_size(true) }
    #[kani::unwind(4)]
    fn onstartup_trigger() { body_onstartup(false) }
    #[kani::unwind(4)]
    fn onstartup_trigger_witness() { body_onstartup(true) }
    #[kani::unwind(6)]
    fn compound_policy() { body_compound(false) }
    #[kani::unwind(6)]
    fn compound_policy_witness() { body_compound(true) }
}
