//! C15(a) / R3: runtime reconfiguration is atomic with respect to logging, and the public
//! path `Config::builder -> Logger::new_with_err_handler -> Log::log / enabled ->
//! Handle::set_config` routes as C01 prescribes.
//! Units under check: the real `SharedLogger::new_with_err_handler` (name -> index
//! resolution, length sort, `add` calls), `<Logger as Log>::{log, enabled}`,
//! `Logger::max_log_level`, `Handle::set_config`, `ConfigBuilder::build`.
//! E2: `ArcSwap` is modelled (snapshot on load, replace on store) with a yield call before
//! and after every load/store; the harness runs the reconfiguring thread's complete
//! `set_config(c1)` at a solver-chosen yield point of the logging thread.
use crate::sym;
use crate::util::*;
use log::{Level, LevelFilter, Log, Metadata, Record};
use log4rs::append::Append;
use log4rs::config::{Appender, Config, Logger as LoggerCfg, Root};
use log4rs::{Handle, Logger};

static mut HITS: [u8; 4] = [0; 4];
static mut ERRORS: u8 = 0;
static mut YIELDS: u8 = 0;
static mut SWAP_AT: u8 = 255;
static mut SWAPPED: bool = false;
static mut HANDLE: Option<Handle> = None;
static mut NEXT: Option<Config> = None;
/// appender id that triggers the swap re-entrantly from inside `append` (255 = none)
static mut REENTRANT_AT: u8 = 255;

fn do_swap() {
    unsafe {
        if SWAPPED {
            return;
        }
        SWAPPED = true;
        let cfg = (*std::ptr::addr_of_mut!(NEXT)).take();
        if let (Some(h), Some(c)) = ((*std::ptr::addr_of!(HANDLE)).as_ref(), cfg) {
            h.set_config(c);
        }
    }
}

struct YieldHook;
impl log4rs::verif_hooks::Yield for YieldHook {
    fn at(&self, kind: u8) {
        on_yield(kind)
    }
}
static YIELD_HOOK: YieldHook = YieldHook;

fn on_yield(_kind: u8) {
    unsafe {
        let k = YIELDS;
        YIELDS += 1;
        if k == SWAP_AT {
            do_swap();
        }
    }
}

#[derive(Debug)]
struct Cap {
    id: u8,
    fails: bool,
}
impl Append for Cap {
    fn append(&self, _r: &Record) -> anyhow::Result<()> {
        unsafe {
            HITS[self.id as usize] += 1;
            if REENTRANT_AT == self.id {
                do_swap();
            }
        }
        if self.fails {
            return Err(anyhow::Error::new(TagErr(self.id)));
        }
        Ok(())
    }
    fn flush(&self) {}
}

fn handler(_e: &anyhow::Error) {
    unsafe {
        ERRORS += 1;
    }
}

/// A two-appender, one-logger configuration: appender `ids.0` on the root, `ids.1` on logger
/// "a" (additive as given).  `order`: declare the appenders in reverse order.
fn mk_config(names: (&'static str, &'static str), ids: (u8, u8), root_level: LevelFilter, a_level: LevelFilter, additive: bool, fails: bool, order: bool) -> Config {
    let a0 = Appender::builder().build(names.0, Box::new(Cap { id: ids.0, fails: false }));
    let a1 = Appender::builder().build(names.1, Box::new(Cap { id: ids.1, fails }));
    // assembled directly: ConfigBuilder::build itself does not fit the solver (DESIGN.md 9.6) and is
    // not the subject here; the configuration is valid by construction
    let apps = if order { vec![a1, a0] } else { vec![a0, a1] };
    let loggers = vec![LoggerCfg::builder().appender(names.1).additive(additive).build("a", a_level)];
    Config::verif_from_parts(apps, Root::builder().appender(names.0).build(root_level), loggers)
}

/// expected per-appender deliveries for a record (target under "a" or not, level) under a config
fn expect(ids: (u8, u8), root_level: LevelFilter, a_level: LevelFilter, additive: bool, under_a: bool, lvl: Level) -> [u8; 4] {
    let mut h = [0u8; 4];
    if under_a {
        if level_rank(lvl) <= filter_rank(a_level) {
            h[ids.1 as usize] += 1;
            if additive {
                h[ids.0 as usize] += 1;
            }
        }
    } else if level_rank(lvl) <= filter_rank(root_level) {
        h[ids.0 as usize] += 1;
    }
    h
}

fn hits() -> [u8; 4] {
    unsafe { HITS }
}

/// `reentrant`: the swap is triggered from inside appender 0/1 of c0 instead of at a yield point.
pub fn body(additive0: bool, additive1: bool, target: &'static str, under_a: bool, reentrant: bool, order: bool, witness: bool) {
    unsafe {
        HITS = [0; 4];
        ERRORS = 0;
        YIELDS = 0;
        SWAPPED = false;
    }
    let (r0, a0, r1, a1) = (any_level_filter(), any_level_filter(), any_level_filter(), any_level_filter());
    let fails = sym::any_bool();
    let c0 = mk_config(("A", "B"), (0, 1), r0, a0, additive0, fails, order);
    let c1 = mk_config(("C", "D"), (2, 3), r1, a1, additive1, false, !order);
    let logger = Logger::new_with_err_handler(c0, Box::new(|e: &anyhow::Error| handler(e)));
    // C02: reported maximum of the initial configuration
    let m0 = if filter_rank(r0) > filter_rank(a0) { filter_rank(r0) } else { filter_rank(a0) };
    assert!(filter_rank(logger.max_log_level()) == m0, "C02: max level is the most verbose configured level");
    unsafe {
        HANDLE = Some(logger.verif_handle());
        NEXT = Some(c1);
        log4rs::verif_hooks::YIELD = Some(&YIELD_HOOK);
        if reentrant {
            REENTRANT_AT = sym::below(2);
            SWAP_AT = 255;
        } else {
            REENTRANT_AT = 255;
            SWAP_AT = sym::below(6);
        }
    }
    let lvl = any_level();
    let rec = Record::builder().target(target).level(lvl).build();
    logger.log(&rec);
    let got = hits();
    let e0 = expect((0, 1), r0, a0, additive0, under_a, lvl);
    let e1 = expect((2, 3), r1, a1, additive1, under_a, lvl);
    let swapped = unsafe { SWAPPED };
    let is0 = got == e0;
    let is1 = got == e1;
    assert!(is0 || is1, "C15: a record is routed entirely under the old or entirely under the new configuration");
    if !swapped {
        assert!(is0, "C01: without a swap the record is routed under the installed configuration");
    }
    if reentrant {
        // the swap happened inside the fan-out of the old configuration: the record stays with it
        assert!(is0, "C15: a re-entrant swap does not change the routing of the record in flight");
    }
    let exp_err = if is0 && fails && e0[1] > 0 { 1 } else { 0 };
    if !(is0 && is1) {
        assert!(unsafe { ERRORS } == exp_err, "C03: each appender error reaches the handler exactly once");
    }
    // ---- a record logged after the swap returned uses only the new configuration ----------
    unsafe {
        HITS = [0; 4];
        SWAP_AT = 255;
        REENTRANT_AT = 255;
    }
    let lvl2 = any_level();
    let rec2 = Record::builder().target(target).level(lvl2).build();
    logger.log(&rec2);
    let got2 = hits();
    if swapped {
        assert!(got2 == expect((2, 3), r1, a1, additive1, under_a, lvl2), "C15: after the swap returned only the new configuration is used");
        let m1 = if filter_rank(r1) > filter_rank(a1) { filter_rank(r1) } else { filter_rank(a1) };
        assert!(filter_rank(log::max_level()) == m1, "C02: set_config installs the new maximum as the facade's global maximum");
        assert!(filter_rank(logger.max_log_level()) == m1);
    } else {
        assert!(got2 == expect((0, 1), r0, a0, additive0, under_a, lvl2));
    }
    // C02: enabled() agrees with delivery
    let md = Metadata::builder().target(target).level(lvl2).build();
    let (rl, al) = if swapped { (r1, a1) } else { (r0, a0) };
    let thr = if under_a { al } else { rl };
    assert!(logger.enabled(&md) == (level_rank(lvl2) <= filter_rank(thr)), "C02: enabled() == passes the effective logger's threshold");
    cover!(swapped && is1 && !is0, "the swap cut in before the snapshot: routed under the new configuration");
    cover!(swapped && is0 && !is1, "the swap happened after the snapshot: routed under the old configuration");
    if witness {
        assert!(false, "WITNESS");
    }
    unsafe {
        log4rs::verif_hooks::YIELD = None;
        HANDLE = None;
    }
    std::mem::forget(logger);
}

/// Smallest shape: two root-only configurations with one appender each (ids 0 and 2), no
/// declared logger, no failing appender; solver variables: both root levels, the position of the
/// swap among the yield points (or the re-entrant trigger), the levels of two records.
fn mk_min(name: &'static str, id: u8, root_level: LevelFilter) -> Config {
    let a = Appender::builder().build(name, Box::new(Cap { id, fails: false }));
    Config::verif_from_parts(vec![a], Root::builder().appender(name).build(root_level), vec![])
}

pub fn body_min(reentrant: bool, witness: bool) {
    unsafe {
        HITS = [0; 4];
        ERRORS = 0;
        YIELDS = 0;
        SWAPPED = false;
    }
    let (r0, r1) = (any_level_filter(), any_level_filter());
    let c0 = mk_min("A", 0, r0);
    let c1 = mk_min("C", 2, r1);
    let logger = Logger::new_with_err_handler(c0, Box::new(|e: &anyhow::Error| handler(e)));
    assert!(filter_rank(logger.max_log_level()) == filter_rank(r0), "C02: max level is the most verbose configured level");
    unsafe {
        HANDLE = Some(logger.verif_handle());
        NEXT = Some(c1);
        log4rs::verif_hooks::YIELD = Some(&YIELD_HOOK);
        if reentrant {
            REENTRANT_AT = 0;
            SWAP_AT = 255;
        } else {
            REENTRANT_AT = 255;
            SWAP_AT = sym::below(6);
        }
    }
    let lvl = any_level();
    let rec = Record::builder().target("x").level(lvl).build();
    logger.log(&rec);
    let got = hits();
    let mut e0 = [0u8; 4];
    if level_rank(lvl) <= filter_rank(r0) {
        e0[0] = 1;
    }
    let mut e1 = [0u8; 4];
    if level_rank(lvl) <= filter_rank(r1) {
        e1[2] = 1;
    }
    let swapped = unsafe { SWAPPED };
    let is0 = got == e0;
    let is1 = got == e1;
    assert!(is0 || is1, "C15: a record is routed entirely under the old or entirely under the new configuration");
    if !swapped {
        assert!(is0, "C01: without a swap the record is routed under the installed configuration");
    }
    if reentrant {
        assert!(is0, "C15: a re-entrant swap does not change the routing of the record in flight");
        assert!(swapped == (e0[0] == 1), "the re-entrant trigger fires exactly when the old appender is reached");
    }
    assert!(unsafe { ERRORS } == 0);
    unsafe {
        HITS = [0; 4];
        SWAP_AT = 255;
        REENTRANT_AT = 255;
    }
    let lvl2 = any_level();
    let rec2 = Record::builder().target("x").level(lvl2).build();
    logger.log(&rec2);
    let got2 = hits();
    let mut f = [0u8; 4];
    if swapped {
        if level_rank(lvl2) <= filter_rank(r1) {
            f[2] = 1;
        }
        assert!(got2 == f, "C15: after the swap returned only the new configuration is used");
        assert!(filter_rank(log::max_level()) == filter_rank(r1), "C02: set_config installs the new maximum as the facade's global maximum");
        assert!(filter_rank(logger.max_log_level()) == filter_rank(r1));
    } else {
        if level_rank(lvl2) <= filter_rank(r0) {
            f[0] = 1;
        }
        assert!(got2 == f);
    }
    let md = Metadata::builder().target("x").level(lvl2).build();
    let thr = if swapped { r1 } else { r0 };
    assert!(logger.enabled(&md) == (level_rank(lvl2) <= filter_rank(thr)), "C02: enabled() == passes the effective logger's threshold");
    cover!(swapped && is1 && !is0, "the swap cut in before the snapshot: routed under the new configuration");
    cover!(swapped && is0 && !is1, "the swap happened after the snapshot: routed under the old configuration");
    if witness {
        assert!(false, "WITNESS");
    }
    unsafe {
        log4rs::verif_hooks::YIELD = None;
        HANDLE = None;
    }
    std::mem::forget(logger);
}

harnesses! {
    common {
        #[cfg_attr(kani, kani::stub(std::backtrace::Backtrace::capture, crate::util::stub_backtrace_capture))]
        #[cfg_attr(kani, kani::stub(<anyhow::Error as std::ops::Drop>::drop, crate::util::stub_anyhow_drop))]
    }
    #[kani::unwind(6)]
    fn swap_min() { body_min(false, false) }
    #[kani::unwind(6)]
    fn swap_min_witness() { body_min(false, true) }
    #[kani::unwind(6)]
    fn swap_min_reentrant() { body_min(true, false) }
    #[kani::unwind(6)]
    fn swap_under_a() { body(true, false, "a::x", true, false, false, false) }
    #[kani::unwind(6)]
    fn swap_under_a_witness() { body(true, false, "a::x", true, false, false, true) }
    #[kani::unwind(6)]
    fn swap_root_target() { body(false, true, "b", false, false, true, false) }
    #[kani::unwind(6)]
    fn swap_reentrant() { body(true, true, "a", true, true, false, false) }
}
