//! C11 (date formats): an invalid strftime directive in `{d(..)}` is recognised when the pattern
//! is compiled (it becomes an {ERROR: ..} chunk) instead of panicking inside `Encode::encode`
//! later - the defect fixed in f7b5dcb.
//! Unit under check: the real `From<Piece> for Chunk` on `{d(<format>)}` with chrono's
//! `StrftimeItems` parser executed for real (door-opener `verif_date_chunk_is_error`).
//! The format is `<prefix>%<x><suffix>` with the directive letter x a solver variable.
use crate::sym;
use log4rs::encode::pattern::verif_date_chunk_is_error;

/// directive letters: valid ones and letters chrono does not know
const LETTERS: [u8; 12] = [b'Y', b'm', b'd', b'H', b'M', b'S', b'+', b'%', b'Q', b'J', b'!', b'i'];
fn valid(x: u8) -> bool {
    matches!(x, b'Y' | b'm' | b'd' | b'H' | b'M' | b'S' | b'+' | b'%')
}

pub fn body(prefix: &'static [u8], suffix: &'static [u8], witness: bool) {
    let mut b = [0u8; 16];
    let mut n = 0;
    for &c in prefix {
        b[n] = c;
        n += 1;
    }
    b[n] = b'%';
    n += 1;
    let x = LETTERS[sym::below(LETTERS.len() as u8) as usize];
    b[n] = x;
    n += 1;
    for &c in suffix {
        b[n] = c;
        n += 1;
    }
    let fmt = unsafe { std::str::from_utf8_unchecked(&b[..n]) };
    let is_error = verif_date_chunk_is_error(fmt);
    assert!(is_error == !valid(x), "C11: a date format is rejected at construction exactly when it holds an unknown directive");
    cover!(is_error, "an invalid directive");
    cover!(!is_error, "a valid directive");
    if witness {
        assert!(false, "WITNESS");
    }
}

harnesses! {
    common {
        #[cfg_attr(kani, kani::stub(std::backtrace::Backtrace::capture, crate::util::stub_backtrace_capture))]
        #[cfg_attr(kani, kani::stub(alloc::fmt::format, crate::c11_date::stub_format))]
    }
    #[kani::unwind(10)]
    fn date_directive() { body(b"", b"", false) }
    #[kani::unwind(10)]
    fn date_directive_witness() { body(b"", b"", true) }
    #[kani::unwind(12)]
    fn date_directive_in_text() { body(b"%Y-", b" x", false) }
}

/// The error text (`format!("invalid date format ..")`) is not the subject: an empty string.
#[cfg(kani)]
pub fn stub_format(_args: std::fmt::Arguments<'_>) -> String {
    String::new()
}
