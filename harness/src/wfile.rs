//! E4, file handles: `OpenOptions::{append, truncate, open}`, `File::metadata`,
//! `Metadata::len`, `<File as Write>::{write, flush}` and the closing of descriptors over the
//! model disk of `world::fs`.  A handle refers to an inode, not to a name: a writer that
//! survives a rename or an unlink keeps writing into the same file (Unix semantics).
//! Natively nothing here is used: the real `std::fs::File` acts on the real directory.
#![cfg(kani)]
use crate::world::fs::{self, Disk, CAP, NONE};
use std::fs::{File, Metadata, OpenOptions};
use std::io;
use std::os::fd::{AsRawFd, FromRawFd, OwnedFd};
use std::path::Path;

pub const NHANDLE: usize = 8;
const FD_BASE: i32 = 100;

#[derive(Clone, Copy)]
pub struct Handle {
    pub open: bool,
    pub inode: usize,
    pub append: bool,
    pub pos: usize,
}
const CLOSED: Handle = Handle { open: false, inode: NONE, append: false, pos: 0 };

pub static mut HANDLES: [Handle; NHANDLE] = [CLOSED; NHANDLE];
pub static mut NEXT_HANDLE: usize = 0;
/// flags recorded by the stubbed `OpenOptions` setters since the last `open`
pub static mut OPT_APPEND: bool = false;
pub static mut OPT_TRUNCATE: bool = false;
/// inode whose metadata was asked for last (the `Metadata` value itself carries nothing)
pub static mut LAST_META: usize = NONE;
/// number of `write` calls that reached the model disk, and of `open` calls
pub static mut WRITES: usize = 0;
pub static mut OPENS: usize = 0;

pub fn reset() {
    unsafe {
        HANDLES = [CLOSED; NHANDLE];
        NEXT_HANDLE = 0;
        OPT_APPEND = false;
        OPT_TRUNCATE = false;
        LAST_META = NONE;
        WRITES = 0;
        OPENS = 0;
    }
}

pub fn stub_oo_append(o: &mut OpenOptions, append: bool) -> &mut OpenOptions {
    unsafe {
        OPT_APPEND = append;
    }
    o
}

pub fn stub_oo_truncate(o: &mut OpenOptions, truncate: bool) -> &mut OpenOptions {
    unsafe {
        OPT_TRUNCATE = truncate;
    }
    o
}

pub fn stub_open<P: AsRef<Path>>(_o: &OpenOptions, path: P) -> io::Result<File> {
    let slot = fs::lookup(path.as_ref());
    let d = fs::disk();
    unsafe {
        OPENS += 1;
    }
    if fs::faulted(d) {
        return Err(io::Error::from(io::ErrorKind::PermissionDenied));
    }
    if slot == NONE {
        return Err(io::Error::from(io::ErrorKind::NotFound));
    }
    if d.obstacle[slot] {
        // a directory sits at the name
        return Err(io::Error::from(io::ErrorKind::PermissionDenied));
    }
    if !d.dir_exists[d.dir_of[slot]] {
        return Err(io::Error::from(io::ErrorKind::NotFound));
    }
    let (append, truncate) = unsafe { (OPT_APPEND, OPT_TRUNCATE) };
    if d.link[slot] == NONE {
        // create(true)
        let ino = fs::alloc_inode(d);
        d.link[slot] = ino;
    }
    let ino = d.link[slot];
    if truncate {
        d.inodes[ino].len = 0;
        d.inodes[ino].overflow = false;
    }
    let h = unsafe { NEXT_HANDLE };
    if h >= NHANDLE {
        crate::sym::cut();
    }
    unsafe {
        NEXT_HANDLE += 1;
        HANDLES[h] = Handle { open: true, inode: ino, append, pos: 0 };
        Ok(File::from_raw_fd(FD_BASE + h as i32))
    }
}

fn handle_of(f: &File) -> usize {
    (f.as_raw_fd() - FD_BASE) as usize
}

pub fn stub_metadata(f: &File) -> io::Result<Metadata> {
    let h = handle_of(f);
    unsafe {
        LAST_META = HANDLES[h].inode;
        // the value is opaque; `Metadata::len` is answered from LAST_META
        Ok(std::mem::zeroed())
    }
}

pub fn stub_metadata_len(_m: &Metadata) -> u64 {
    let d = fs::disk();
    unsafe { d.inodes[LAST_META].len as u64 }
}

pub fn stub_file_write(f: &mut File, buf: &[u8]) -> io::Result<usize> {
    let h = handle_of(f);
    let d = fs::disk();
    if fs::faulted(d) {
        return Err(io::Error::from(io::ErrorKind::PermissionDenied));
    }
    unsafe {
        WRITES += 1;
        let hd = HANDLES[h];
        let ino = hd.inode;
        let at = if hd.append { d.inodes[ino].len } else { hd.pos };
        let mut i = 0;
        while i < buf.len() && at + i < CAP {
            d.inodes[ino].data[at + i] = buf[i];
            i += 1;
        }
        if at + buf.len() > CAP {
            d.inodes[ino].overflow = true;
        }
        let end = at + buf.len();
        if end > d.inodes[ino].len {
            d.inodes[ino].len = end;
        }
        HANDLES[h].pos = end;
    }
    Ok(buf.len())
}

/// `<File as Seek>::seek` on the model: the handle's position (an append-mode handle starts at 0
/// like a descriptor opened with O_APPEND and jumps to the end with every write).
pub fn stub_file_seek(f: &mut File, to: io::SeekFrom) -> io::Result<u64> {
    let h = handle_of(f);
    let d = fs::disk();
    unsafe {
        let len = d.inodes[HANDLES[h].inode].len as i64;
        let cur = HANDLES[h].pos as i64;
        let target = match to {
            io::SeekFrom::Start(n) => n as i64,
            io::SeekFrom::Current(n) => cur + n,
            io::SeekFrom::End(n) => len + n,
        };
        if target < 0 {
            return Err(io::Error::from(io::ErrorKind::InvalidInput));
        }
        HANDLES[h].pos = target as usize;
        Ok(target as u64)
    }
}

/// std's `File` overrides `stream_position` (it asks the descriptor directly): same model.
pub fn stub_file_stream_position(f: &mut File) -> io::Result<u64> {
    stub_file_seek(f, io::SeekFrom::Current(0))
}

pub fn stub_file_flush(_f: &mut File) -> io::Result<()> {
    Ok(())
}

pub fn stub_ownedfd_drop(fd: &mut OwnedFd) {
    let h = (fd.as_raw_fd() - FD_BASE) as usize;
    unsafe {
        if h < NHANDLE {
            HANDLES[h].open = false;
        }
    }
}

/// number of handles currently open on the inode linked at `slot` (0 if the name is absent)
pub fn open_handles_on(slot: usize) -> usize {
    let d = fs::disk();
    let ino = d.link[slot];
    let mut n = 0;
    unsafe {
        let mut h = 0;
        while h < NHANDLE {
            if HANDLES[h].open && HANDLES[h].inode == ino && ino != NONE {
                n += 1;
            }
            h += 1;
        }
    }
    n
}

