"""Registry of harnesses per property: which Kani harnesses decide it, in which tier,
under which caps; plus the text that goes into the evidence (functions encoded,
bounds, assumptions)."""


def H(name, tier="quick", timeout=600, mem_gb=8, kind="proof", **kw):
    d = dict(name=name, tier=tier, timeout=timeout, mem_gb=mem_gb, kind=kind)
    d.update(kw)
    return d


PROPS = {}

PROPS["C18"] = dict(
    functions=[
        "log4rs::encode::writer::ansi::AnsiWriter::<Vec<u8>>::set_style",
        "log4rs::encode::writer::ansi::color_byte",
    ],
    bounds="(b) all 9x9x3 = 243 styles (text colour or none x background or none x intensity or none) as three solver variables",
    outside="bytes arriving on a real terminal",
    assumptions=[
        "Vec<u8> as io::Write appends (std, executed for real)",
    ],
    harnesses=[
        H("c18_ansi::c18_ansi_all_styles", timeout=300, mem_gb=4,
          instance="AnsiWriter<Vec<u8>>", symbolic="text colour (9), background (9), intensity (3)",
          bound="unwind 18 (16-byte comparison loop)"),
        H("c18_ansi::c18_ansi_all_styles_witness", kind="witness", timeout=300, mem_gb=4),
    ],
)

PROPS["C18"].update(
    level_text="Bounded model checking of the real AnsiWriter::set_style over all 243 styles as solver variables against an "
               "independent SGR reference; any reachable panic (index, overflow) is a failed check. Solver-decided over the "
               "whole style space rather than sampled, which is what found the 13-byte sequence overflowing the 12-byte buffer.",
    level_note="Trusted: Kani's MIR->goto translation, CBMC, CaDiCaL; std Vec<u8> as io::Write executed for real. "
               "Terminal detection/colour policy part (a) and highlight pairing (c): see evidence for what this run covered.",
    design_ref="DESIGN.md section 5, C18",
)

# Properties not claimed, with the reason (kept current by hand; see DESIGN.md section 7).
NOT_APPLICABLE = {
    "C14": "text -> behaviour through serde_yaml/serde_json/toml plus std HashMap with the thread-local-seeded hasher (Kani ICE) and the typemap registry: three third-party parsers over symbolic documents are outside what CBMC can execute here; stubbing them away leaves nothing of the property (DESIGN.md section 7)",
}

# /repo commits that add guarded hooks (cfg log4rs_verif)
HOOK_COMMITS = []

PROPS["C03"] = dict(
    functions=[
        "log4rs::ConfiguredLogger::log", "log4rs::ConfiguredLogger::enabled", "log4rs::Appender::append",
        "log4rs::filter::threshold::ThresholdFilter::filter",
    ],
    bounds="one logger node; <= 3 appenders x <= 3 filters (instances 2x0, 2x1 with a duplicate attachment, 2x2, 3x3); "
           "solver variables: logger threshold (6), record level (5), every filter response (3 each) or threshold level (6), "
           "per-appender failure flag",
    outside="chains longer than 3, more than 3 appenders; the error loop of <Logger as Log>::log (see C01/C15 R3 harness)",
    assumptions=[
        "hook FanOut constructs the private ConfiguredLogger/Appender values directly (no behaviour change)",
        "stub: std::backtrace::Backtrace::capture -> Backtrace::disabled() (no backtrace in error values)",
        "stub: <anyhow::Error as Drop>::drop -> no-op (error values leak; their drop glue is not the subject)",
        "-Z restrict-vtable: dyn calls resolve to implementations of the same trait method only",
    ],
    level_text="Bounded model checking of the real fan-out (ConfiguredLogger::log + Appender::append) and ThresholdFilter "
               "over all joint assignments of filter responses, thresholds, levels and failing appenders for the listed "
               "shapes; oracle = independent chain interpreter comparing per-appender delivery counts, exactly which "
               "filters were consulted, and the multiset of returned errors tagged by appender. Isolation follows because "
               "the per-appender equalities hold for all joint assignments.",
    level_note="Trusted: Kani/CBMC/CaDiCaL; shapes (number of appenders, chain length, attachment list) are enumerated "
               "instances, not solver variables.",
    design_ref="DESIGN.md section 5, C03",
    harnesses=[
        H("c03_filters::c03_2x2", timeout=600, mem_gb=6, instance="2 appenders x 2 response filters, attached [0,1]",
          symbolic="logger level, record level, 4 responses, 2 failure flags", bound="unwind 5"),
        H("c03_filters::c03_2x2_witness", kind="witness", timeout=600, mem_gb=6),
        H("c03_filters::c03_2x2_threshold", timeout=600, mem_gb=6, instance="2x2, real ThresholdFilter at (1,0)",
          symbolic="logger level, record level, threshold level, 3 responses, 2 failure flags", bound="unwind 5"),
        H("c03_filters::c03_2x1_dup", timeout=600, mem_gb=6, instance="2 appenders x 1 filter, attached [0,1,0]",
          symbolic="levels, 2 responses, 2 failure flags", bound="unwind 5"),
        H("c03_filters::c03_2x0", timeout=600, mem_gb=6, instance="2 appenders, no filters, attached [1,0]",
          symbolic="levels, 2 failure flags", bound="unwind 5"),
        H("c03_filters::c03_3x3", tier="thorough", timeout=3600, mem_gb=14, instance="3 appenders x 3 response filters",
          symbolic="levels, 9 responses, 3 failure flags", bound="unwind 6"),
        H("c03_filters::c03_3x3_threshold", tier="thorough", timeout=3600, mem_gb=14, instance="3x3, ThresholdFilter at (0,1), attached [2,0,1]",
          symbolic="levels, threshold, 8 responses, 3 failure flags", bound="unwind 6"),
    ],
)

# loops that only exist on phantom paths (the bit-packed io::Error repr is not decided during
# symbolic execution, so every io::Error drop site also explores "custom boxed error", whose
# candidates include anyhow's error objects with their Backtrace); a bound of 1 keeps them
# small, and their unwinding assertions are still proved by the solver.
BT_LOOPS = [(r"drop_glue::<\[std::backtrace::Backtrace(Symbol|Frame)\]>", 0, 1)]

_c07_common = dict(timeout=900, mem_gb=8, unwindset=BT_LOOPS)
PROPS["C07"] = dict(
    functions=[
        "FixedWindowRollerBuilder::build", "<FixedWindowRoller as Roll>::roll", "fixed_window::rotate",
        "fixed_window::move_file", "Compression::compress (None)", "<DeleteRoller as Roll>::roll",
        "append::env_util::expand_env_vars (as called by rotate)",
    ],
    bounds="(base, count) instances {0,1,3}x{0..4}; pattern kinds: index in file name, in a directory component, repeated, "
           "with $ENV{D} set/unset; solver variables: existence of every archive name base-1..base+count (gaps, stale "
           "extras), of a bystander file; 1-3 successive rolls; optional always-failing rename (cross-device fallback)",
    outside="compression (gzip/zstd are optional features over C libraries), background rotation (threads), "
            "file contents longer than 1 byte (contents are opaque ids: the roller never reads them except through fs::copy)",
    assumptions=[
        "E4 model file system replaces std::fs::{rename,copy,remove_file,create_dir_all} (stubs in harness/src/world.rs): "
        "rename of a missing source -> NotFound, onto a name whose directory does not exist -> NotFound, replaces the destination",
        "E6 std::env::var answered from a table",
        "stub: Backtrace::capture -> disabled; <anyhow::Error as Drop>::drop -> no-op; fault-free harnesses: "
        "<anyhow::Error as From<io::Error>>::from is cut (roll must not fail on a fault-free disk: asserted)",
        "hook FixedWindowRoller::verif_new builds the roller value directly (Compression::None); the builder's own "
        "checks are decided separately by harness c07_build",
    ],
    level_text="Bounded model checking of the real roller code over every initial directory state of the window "
               "(each managed name present or absent) for the listed (base, count, pattern) instances and 1-3 successive "
               "rolls; oracle = array model of the window compared name by name, plus 'active path gone', 'bystander and "
               "names outside the window untouched', 'no unregistered path touched'. Counterexamples replay on the real "
               "file system in a fresh directory.",
    level_note="Trusted: Kani/CBMC/CaDiCaL; the model file system's rename/copy/remove semantics (stated in assumptions). "
               "base/count/pattern are enumerated instances; the directory state is the solver's.",
    design_ref="DESIGN.md section 5, C07",
    harnesses=[
        H("c07_window::c07_build", tier="thorough", instance="FixedWindowRollerBuilder::build on 4 pattern shapes", symbolic="pattern shape, base and count over all of u32", bound="unwind 12", timeout=3600, mem_gb=14),
        H("c07_window::c07_delete", instance="DeleteRoller", symbolic="existence of an unrelated archive", bound="unwind 8", **_c07_common),
        H("c07_window::c07_file_b0_c0", instance="a.{} base 0 count 0", symbolic="window state, bystander", bound="unwind 8", **_c07_common),
        H("c07_window::c07_file_b0_c1", instance="a.{} base 0 count 1", symbolic="window state, bystander", bound="unwind 8", **_c07_common),
        H("c07_window::c07_file_b0_c2", instance="a.{} base 0 count 2", symbolic="window state (3 names), bystander", bound="unwind 8", **_c07_common),
        H("c07_window::c07_file_b0_c2_witness", kind="witness", **_c07_common),
        H("c07_window::c07_file_b1_c2", instance="a.{} base 1 count 2", symbolic="window state, name below the window, bystander", bound="unwind 8", **_c07_common),
        H("c07_window::c07_dir_b0_c2", instance="{}/a base 0 count 2 (index in a directory component)", symbolic="window state, bystander", bound="unwind 8", **_c07_common),
        H("c07_window::c07_file_b0_c3", tier="thorough", instance="a.{} base 0 count 3", symbolic="window state", bound="unwind 8", **_c07_common),
        H("c07_window::c07_file_b3_c2", tier="thorough", instance="a.{} base 3 count 2", symbolic="window state", bound="unwind 8", **_c07_common),
        H("c07_window::c07_file_b0_c2_two_rolls", tier="thorough", instance="a.{} base 0 count 2, 2 successive rolls", symbolic="window state", bound="unwind 8", **_c07_common),
        H("c07_window::c07_file_b1_c4", tier="thorough", instance="a.{} base 1 count 4", symbolic="window state", bound="unwind 8", **_c07_common),
        H("c07_window::c07_file_b0_c2_xdev", tier="thorough", instance="a.{} base 0 count 2, rename always fails (copy+remove fallback)", symbolic="window state", bound="unwind 8", **_c07_common),
        H("c07_window::c07_dir_b1_c3", tier="thorough", instance="{}/a base 1 count 3", symbolic="window state", bound="unwind 8", **_c07_common),
        H("c07_window::c07_rep_b0_c2", tier="thorough", instance="a.{}.{} base 0 count 2 (repeated placeholder)", symbolic="window state", bound="unwind 10", **_c07_common),
        H("c07_window::c07_envset_b0_c2", tier="thorough", instance="a$ENV{D}.{} with D=x", symbolic="window state", bound="unwind 16", timeout=3600, mem_gb=14, unwindset=BT_LOOPS),
        H("c07_window::c07_envunset_b0_c2", tier="thorough", instance="a$ENV{D}.{} with D unset", symbolic="window state", bound="unwind 16", **_c07_common),
    ],
)

# recursion bounds for the logger tree (children live on the heap, where the symbolic executor
# does not propagate constants: without a bound per function the phantom levels multiply)
def TREE_REC(depth):
    return [(r"^log4rs::ConfiguredLogger::add$", None, depth + 1),
            (r"^log4rs::ConfiguredLogger::max_log_level$", None, depth + 1)]

_tree = dict(timeout=1500, mem_gb=10)
_T_SMALL = "targets a, a::b, a::bc, a::b::c, x, '', 'a:', 'a:::b'"
_T_CHAIN = "16 targets: a, a::b, a::b::c, a::b::c::x, a::x, a::bx, ax, x::a, '', ':', '::', 'a:', 'a::', 'a:::b', 'a::b:', '::a'"
_tree_sym = "root level, every declared logger's level, every attached appender id (3 appenders), record level"
_tree_harnesses = [
    H("c01_tree::tree_a", instance="declared: a(additive,1 att); root 1 att; " + _T_SMALL, symbolic=_tree_sym, bound="unwind 9, add recursion 2", unwindset=TREE_REC(1), **_tree),
    H("c01_tree::tree_a_witness", kind="witness", unwindset=TREE_REC(1), **_tree),
    H("c01_tree::tree_a_na", instance="declared: a(non-additive)", symbolic=_tree_sym, bound="unwind 9", unwindset=TREE_REC(1), **_tree),
    H("c01_tree::tree_ab", instance="declared: a::b only (implied intermediate a)", symbolic=_tree_sym, bound="unwind 9", unwindset=TREE_REC(2), **_tree),
    H("c01_tree::tree_a_ab", instance="declared: a, a::b (descend into an existing child)", symbolic=_tree_sym, bound="unwind 9", unwindset=TREE_REC(2), **_tree),
    H("c01_tree::tree_ana_ab", instance="declared: a(non-additive), a::b(additive): chain broken above", symbolic=_tree_sym, bound="unwind 9", unwindset=TREE_REC(2), **_tree),
    H("c01_tree::tree_sib", instance="declared: a::b, a::bc(non-additive): textual-not-component prefix", symbolic=_tree_sym, bound="unwind 9", unwindset=TREE_REC(2), **_tree),
    H("c01_tree::tree_ab_na", tier="thorough", instance="declared: a::b(non-additive); root 2 att", symbolic=_tree_sym, bound="unwind 9", unwindset=TREE_REC(2), **_tree),
    H("c01_tree::tree_a_ab_na", tier="thorough", instance="declared: a, a::b(non-additive)", symbolic=_tree_sym, bound="unwind 9", unwindset=TREE_REC(2), **_tree),
    H("c01_tree::tree_a_abc", tier="thorough", instance="declared: a, a::b::c (implied a::b below a declared a)", symbolic=_tree_sym, bound="unwind 9", unwindset=TREE_REC(3), **_tree),
    H("c01_tree::tree_ana_abc", tier="thorough", instance="declared: a(non-additive), a::b::c (0 att)", symbolic=_tree_sym, bound="unwind 9", unwindset=TREE_REC(3), **_tree),
    H("c01_tree::tree_lead", tier="thorough", instance="declared: ::a (empty first component); " + _T_CHAIN, symbolic=_tree_sym, bound="unwind 9", unwindset=TREE_REC(2), **_tree),
    H("c01_tree::tree_a_ba", tier="thorough", instance="declared: a, b::a; root 0 att; " + _T_CHAIN, symbolic=_tree_sym, bound="unwind 9", unwindset=TREE_REC(2), **_tree),
    H("c01_tree::tree_a_chain_targets", tier="thorough", instance="declared: a; " + _T_CHAIN, symbolic=_tree_sym, bound="unwind 11", unwindset=TREE_REC(1), **_tree),
    H("c01_tree::tree_3chain", tier="thorough", instance="declared: a, a::b, a::b::c; " + _T_CHAIN, symbolic=_tree_sym, bound="unwind 11", unwindset=TREE_REC(3), timeout=3600, mem_gb=14),
    H("c01_tree::tree_3chain_mid_na", tier="thorough", instance="declared: a, a::b(non-additive), a::b::c", symbolic=_tree_sym, bound="unwind 11", unwindset=TREE_REC(3), timeout=3600, mem_gb=14),
    H("c01_tree::tree_3sib", tier="thorough", instance="declared: a::b, a::bc, a::b::c(non-additive, 2 att)", symbolic=_tree_sym, bound="unwind 11", unwindset=TREE_REC(3), timeout=3600, mem_gb=14),
]
_tree_assumptions = [
    "hook Tree wraps the private ConfiguredLogger (no behaviour change); loggers are added in order of name length, as "
    "SharedLogger::new_with_err_handler does after its sort (the sort + name->index resolution: harness group R3)",
    "E1: FnvHashMap<String, ConfiguredLogger> is replaced by a fixed-capacity association list (capacity 3 per node) "
    "with bytewise key comparison; contract relied upon: one value per key, lookup finds it, iteration visits every entry once",
    "per-function recursion bounds (--unwindset) for add / max_log_level = depth of the instance + 1; their unwinding "
    "assertions are checked",
]

PROPS["C01"] = dict(
    functions=["log4rs::ConfiguredLogger::add", "log4rs::ConfiguredLogger::find", "log4rs::ConfiguredLogger::enabled"],
    bounds="<= 3 declared loggers, depth <= 3, 3 appenders, <= 2 attachments per logger; tree shape, additive flags, number "
           "of attachments and the target pool are enumerated instances; levels and attached appender ids are solver variables",
    outside="free-text targets and names (pools only); more than 3 declared loggers; declaration-order independence of the "
            "constructor's sort (R3) and delivery through <Logger as Log>::log (fan-out unit: C03)",
    assumptions=_tree_assumptions,
    level_text="Bounded model checking of the real tree code (add/find) for a list of tree skeletons (chains, implied "
               "intermediates, siblings sharing a textual prefix, a leading '::', non-additive loggers at every depth) and a "
               "pool of targets (matching, partially matching, empty, stray colons); for every instance the solver quantifies over "
               "all levels and attachment choices; oracle = reference evaluator on hand-written component lists (effective logger "
               "= longest component-wise prefix; attachments = own + inherited along the unbroken additive chain), compared as "
               "per-appender hit counts so duplicates and misses both show.",
    level_note="Trusted: Kani/CBMC/CaDiCaL and the container model E1. Shapes and targets are enumerated, not symbolic "
               "(symbolic shapes did not fit in memory, DESIGN.md section 2).",
    design_ref="DESIGN.md section 5, C01",
    harnesses=_tree_harnesses,
)

_max = dict(timeout=1500, mem_gb=10)
PROPS["C02"] = dict(
    functions=["log4rs::ConfiguredLogger::max_log_level", "log4rs::ConfiguredLogger::find", "log4rs::ConfiguredLogger::enabled",
               "log4rs::ConfiguredLogger::add"],
    bounds="same instances as C01 for enabled(); max_log_level on trees with <= 3 declared loggers; all levels symbolic",
    outside="the history part (init_config / Handle::set_config installing log::set_max_level) and the log! macros: see evidence",
    assumptions=_tree_assumptions,
    level_text="Bounded model checking of the real tree code: for every instance and all level assignments enabled(target, level) "
               "equals 'level passes the effective logger's threshold' (reference on component lists) and max_log_level() equals "
               "the most verbose level among root and declared loggers.",
    level_note="Trusted: Kani/CBMC/CaDiCaL and the container model E1. Tree shapes are enumerated instances.",
    design_ref="DESIGN.md section 5, C02",
    harnesses=[
        H("c01_tree::max_a", instance="root + a", symbolic="all levels", bound="unwind 6, recursion 2", unwindset=TREE_REC(1), **_max),
        H("c01_tree::max_a_witness", kind="witness", unwindset=TREE_REC(1), **_max),
        H("c01_tree::max_ab", instance="root + a::b (implied a)", symbolic="all levels", bound="unwind 6, recursion 3", unwindset=TREE_REC(2), **_max),
        H("c01_tree::max_a_ba", instance="root + a + b::a", symbolic="all levels", bound="unwind 6, recursion 3", unwindset=TREE_REC(2), **_max),
        H("c01_tree::max_a_ab", tier="thorough", instance="root + a + a::b", symbolic="all levels", bound="unwind 6, recursion 3", unwindset=TREE_REC(2), timeout=3600, mem_gb=14),
        H("c01_tree::max_sib", tier="thorough", instance="root + a::b + a::bc", symbolic="all levels", bound="unwind 8, recursion 3", unwindset=TREE_REC(2), timeout=3600, mem_gb=14),
        H("c01_tree::max_3chain", tier="thorough", instance="root + a + a::b + a::b::c", symbolic="all levels", bound="unwind 8, recursion 4", unwindset=TREE_REC(3), timeout=3600, mem_gb=14),
        # enabled() on the routing instances
        H("c01_tree::tree_a", instance="enabled() on declared: a; " + _T_SMALL, symbolic=_tree_sym, bound="unwind 9", unwindset=TREE_REC(1), **_tree),
        H("c01_tree::tree_a_ab", instance="enabled() on declared: a, a::b", symbolic=_tree_sym, bound="unwind 9", unwindset=TREE_REC(2), **_tree),
        H("c01_tree::tree_sib", tier="thorough", instance="enabled() on declared: a::b, a::bc", symbolic=_tree_sym, bound="unwind 9", unwindset=TREE_REC(2), **_tree),
        H("c01_tree::tree_3chain", tier="thorough", instance="enabled() on declared: a, a::b, a::b::c", symbolic=_tree_sym, bound="unwind 11", unwindset=TREE_REC(3), timeout=3600, mem_gb=14),
    ],
)

PROPS["C13"] = dict(
    functions=["log4rs::config::runtime::check_logger_name"],
    bounds="names of <= 7 units over the alphabet {a, :} and of <= 4 units over {a, :, 'é' (2 bytes)}: every such string",
    outside="the builder part (duplicate detection, dangling references, lossy filtering): see evidence / DESIGN.md",
    assumptions=["hook verif_check_logger_name forwards to the private function",
                 "the harness builds the &str with from_utf8_unchecked from bytes that are valid UTF-8 by construction"],
    level_text="Bounded model checking of the real check_logger_name over every string up to the length bound over the "
               "syntax alphabet (letters and colons, plus a multi-byte letter), against a reference by maximal colon runs.",
    level_note="Trusted: Kani/CBMC/CaDiCaL. Only the name-validity half of C13 is decided here.",
    design_ref="DESIGN.md section 5, C13",
    harnesses=[
        H("c13_names::names_len5", timeout=900, mem_gb=8, instance="<= 5 bytes over {a,:}", symbolic="length and every byte", bound="unwind 9"),
        H("c13_names::names_len5_witness", kind="witness", timeout=900, mem_gb=8),
        H("c13_names::names_len4_multibyte", timeout=900, mem_gb=8, instance="<= 4 units over {a,:,é}", symbolic="length and every unit", bound="unwind 10"),
        H("c13_names::names_len7", tier="thorough", timeout=3600, mem_gb=12, instance="<= 7 bytes over {a,:}", symbolic="length and every byte", bound="unwind 10"),
    ],
)

_t = dict(timeout=900, mem_gb=8)
_tsym = "the instant (every second of the zone's table year, 2^25 values), the multiplier"
def _TN(name, inst, tier="quick", **kw):
    d = dict(_t); d.update(bound="unwind 4"); d.update(kw)
    return H("c16_time::" + name, tier=tier, instance=inst, symbolic=_tsym, **d)

PROPS["C16"] = dict(
    functions=["TimeTrigger::get_next_time", "TimeTrigger::local_after", "TimeTrigger::new", "<TimeTrigger as Trigger>::trigger",
               "chrono calendar arithmetic (NaiveDate/NaiveDateTime/DateTime), executed for real"],
    bounds="units Second/Minute/Hour/Day; zones UTC, Asia/Kolkata, America/New_York 2024, Europe/Berlin 2024, "
           "Australia/Lord_Howe 2024, America/Sao_Paulo 2018, America/Havana 2024 (real transition instants); every second of "
           "the table year as the current instant; multiplier 1..3 as a solver variable and 5, 7, 13, 24, 60, 100 as instances; "
           "modulate on/off per instance; trigger(): 3 arrivals at symbolic non-decreasing instants",
    outside="Week/Month/Year units (calendar arithmetic beyond day-of-year; Month/Year results leave the table year), "
            "max_random_delay > 0 (thread-local RNG), sub-second instants, other zones and years, n = 0 and absurd multipliers",
    assumptions=[
        "E5: <Local as TimeZone>::offset_from_{utc,local}_datetime are replaced by a two-transition zone model that mirrors "
        "chrono 0.4's resolution rules (inclusive overlap ends, first skipped second maps to the old offset) with the real "
        "transition instants of the tz database; Local::now / Utc::now return the harness instant; natively TZ=<zone> and the "
        "guarded clock override are used instead",
        "'wherever the zone's UTC offset does not change in between' is read as: no offset change between the start of the "
        "current unit and the next boundary (DESIGN.md, C16)",
    ],
    level_text="Bounded model checking of the real schedule computation with the current instant as a solver variable over a "
               "whole year per zone (so every DST gap and overlap second, every unit boundary, leap day and year end of that "
               "year is covered, not a grid), against an integer reference (no chrono): next > now always; on a unit boundary in "
               "local time whenever no offset change intervenes; trigger() fires exactly on the first arrival at or after the "
               "scheduled instant and reschedules strictly into the future; any panic (unwrap on ambiguous/missing local time) "
               "is a failed check.",
    level_note="Trusted: Kani/CBMC/CaDiCaL; the zone model E5 (validated natively against the tz database by replay).",
    design_ref="DESIGN.md section 5, C16",
    harnesses=[
        _TN("next_utc_second", "UTC, Second, plain, n in 1..3"),
        H("c16_time::next_utc_second_witness", kind="witness", **_t),
        _TN("next_utc_minute_mod", "UTC, Minute, modulate, n in 1..3"),
        _TN("next_kolkata_hour_mod", "Asia/Kolkata (+5:30), Hour, modulate, n in 1..3"),
        _TN("next_ny_minute", "America/New_York 2024, Minute, plain, n in 1..3"),
        _TN("next_ny_hour_mod", "America/New_York 2024, Hour, modulate, n in 1..3"),
        _TN("next_berlin_day", "Europe/Berlin 2024, Day, plain, n in 1..3"),
        _TN("next_havana_day", "America/Havana 2024 (switch at local midnight), Day, plain, n in 1..3"),
        _TN("known_ny_hour_ambiguous", "America/New_York, Hour, +-2 h around the 2024-11-03 overlap (class of the fixed finding)"),
        _TN("known_havana_day_gap", "America/Havana, Day, +-25 h around the 2024-03-10 midnight gap (class of the fixed finding)"),
        _TN("trigger_utc_minute", "UTC, Minute: new() + 3 trigger() calls", bound="unwind 5"),
        _TN("next_kolkata_day", "Asia/Kolkata, Day, plain", tier="thorough"),
        _TN("next_ny_day_mod", "America/New_York, Day, modulate", tier="thorough"),
        _TN("next_berlin_second_mod", "Europe/Berlin, Second, modulate", tier="thorough"),
        _TN("next_lordhowe_hour", "Australia/Lord_Howe (30-minute DST), Hour, plain", tier="thorough"),
        _TN("next_saopaulo_day_mod", "America/Sao_Paulo 2018 (switch at local midnight, year starts in DST), Day, modulate", tier="thorough"),
        _TN("next_utc_second_mod_n7", "UTC, Second, modulate, n = 7", tier="thorough"),
        _TN("next_utc_minute_mod_n13", "UTC, Minute, modulate, n = 13", tier="thorough"),
        _TN("next_ny_hour_mod_n5", "America/New_York, Hour, modulate, n = 5", tier="thorough"),
        _TN("next_berlin_hour_n24", "Europe/Berlin, Hour, plain, n = 24", tier="thorough"),
        _TN("next_kolkata_minute_n60", "Asia/Kolkata, Minute, plain, n = 60", tier="thorough"),
        _TN("next_ny_day_mod_n100", "America/New_York, Day, modulate, n = 100", tier="thorough"),
        _TN("trigger_ny_hour_mod", "America/New_York, Hour, modulate: new() + 3 trigger() calls", tier="thorough", bound="unwind 5"),
    ],
)

_l = dict(timeout=1200, mem_gb=10)
def _LS(name, inst, tier="quick", **kw):
    d = dict(_l); d.update(bound="unwind 8 (sizes) / 10 (intervals)"); d.update(kw)
    return H("c20_literals::" + name, tier=tier, instance=inst,
             symbolic="number of digits, every digit, blank before / after the unit, letter-case mask", **d)

PROPS["C20"] = dict(
    functions=["size::deserialize_limit (visitor: visit_u64 / visit_i64 / visit_str)", "derived SizeTriggerConfig::deserialize",
               "<TimeTriggerInterval as Deserialize>::deserialize (visitor)", "str::find / trim / parse / eq_ignore_ascii_case (std, executed for real)"],
    bounds="string scalars '<0-2 or 0-3 digits><blank?><unit><blank?>' with the unit word an instance (every alias of the "
           "statement plus junk suffixes x, .5kb, kbb, -, secondss) and all letter cases; 20-digit numbers around the overflow "
           "thresholds of each multiplier with the last two digits free; integer scalars over all of u64 / i64",
    outside="more than 3 free digits together with a unit; refresh_rate (humantime); leading blanks; YAML/JSON text level",
    assumptions=["serde's value deserializers (MapDeserializer, forward_to_deserialize_any) drive the real visitors; the "
                 "error type discards messages (no formatting)"],
    level_text="Bounded model checking of the real literal parsers: for every unit alias and junk suffix, every digit string up "
               "to the bound, both blank placements and every letter-case mask the result equals the u128 reference (number x "
               "multiplier if it fits, else error); overflow thresholds are covered by 20-digit instances with free last digits; "
               "integer scalar forms are covered over the whole 64-bit range.",
    level_note="Trusted: Kani/CBMC/CaDiCaL. The unit word is an instance parameter, digits/blanks/case are the solver's.",
    design_ref="DESIGN.md section 5, C20",
    harnesses=[
        H("c20_literals::size_int", instance="integer scalars", symbolic="all u64, all i64", bound="unwind 8", **_l),
        H("c20_literals::interval_int", instance="integer scalars", symbolic="all u64, all i64", bound="unwind 8", **_l),
        _LS("size_bare_3", "bare number, <= 3 digits"),
        _LS("size_kb_2", "unit kb"), H("c20_literals::size_kb_2_witness", kind="witness", **_l),
        _LS("size_mib_2", "unit mib"), _LS("size_tb_2", "unit tb"), _LS("size_junk_frac", "junk '.5kb'"),
        _LS("size_thr_kb", "17 fixed digits around 2^64/1024 + 2 free digits + kb", bound="unwind 24"),
        _LS("interval_bare_3", "bare number, <= 3 digits"), _LS("interval_minutes", "unit minutes"),
        _LS("interval_week", "unit week"), _LS("interval_junk_secondss", "junk 'secondss'"),
        _LS("size_b_2", "unit b", tier="thorough"), _LS("size_kib_2", "unit kib", tier="thorough"),
        _LS("size_mb_2", "unit mb", tier="thorough"), _LS("size_gb_2", "unit gb", tier="thorough"),
        _LS("size_gib_2", "unit gib", tier="thorough"), _LS("size_tib_2", "unit tib", tier="thorough"),
        _LS("size_junk_x", "junk 'x'", tier="thorough"), _LS("size_junk_kbb", "junk 'kbb'", tier="thorough"),
        _LS("size_junk_minus", "junk '-'", tier="thorough"),
        _LS("size_thr_bare", "18 fixed digits of 2^64 + 2 free digits", tier="thorough", bound="unwind 24"),
        _LS("size_thr_tb", "6 fixed digits around 2^64/1024^4 + 2 free digits + tb", tier="thorough", bound="unwind 24"),
        _LS("interval_second", "unit second", tier="thorough"), _LS("interval_seconds", "unit seconds", tier="thorough"),
        _LS("interval_minute", "unit minute", tier="thorough"), _LS("interval_hour", "unit hour", tier="thorough"),
        _LS("interval_hours", "unit hours", tier="thorough"), _LS("interval_day", "unit day", tier="thorough"),
        _LS("interval_days", "unit days", tier="thorough"), _LS("interval_weeks", "unit weeks", tier="thorough"),
        _LS("interval_month", "unit month", tier="thorough"), _LS("interval_months", "unit months", tier="thorough"),
        _LS("interval_year", "unit year", tier="thorough"), _LS("interval_years", "unit years", tier="thorough"),
        _LS("interval_junk_x", "junk 'x'", tier="thorough"),
    ],
)
