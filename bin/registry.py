"""Registry of harnesses per property: which Kani harnesses decide it, in which tier,
under which caps; plus the text that goes into the evidence (functions encoded,
bounds, assumptions)."""


def H(name, tier="quick", timeout=600, mem_gb=8, kind="proof", **kw):
    d = dict(name=name, tier=tier, timeout=timeout, mem_gb=mem_gb, kind=kind)
    d.update(kw)
    return d


PROPS = {}

PROPS["C18"] = dict(
    functions=[
        "log4rs::encode::writer::ansi::AnsiWriter::<Vec<u8>>::set_style",
        "log4rs::encode::writer::ansi::color_byte",
    ],
    bounds="(b) all 9x9x3 = 243 styles (text colour or none x background or none x intensity or none) as three solver variables",
    outside="bytes arriving on a real terminal",
    assumptions=[
        "Vec<u8> as io::Write appends (std, executed for real)",
    ],
    harnesses=[
        H("c18_ansi::c18_ansi_all_styles", timeout=300, mem_gb=4,
          instance="AnsiWriter<Vec<u8>>", symbolic="text colour (9), background (9), intensity (3)",
          bound="unwind 18 (16-byte comparison loop)"),
        H("c18_ansi::c18_ansi_all_styles_witness", kind="witness", timeout=300, mem_gb=4),
    ],
)

PROPS["C18"].update(
    level_text="Bounded model checking of the real AnsiWriter::set_style over all 243 styles as solver variables against an "
               "independent SGR reference; any reachable panic (index, overflow) is a failed check. Solver-decided over the "
               "whole style space rather than sampled, which is what found the 13-byte sequence overflowing the 12-byte buffer.",
    level_note="Trusted: Kani's MIR->goto translation, CBMC, CaDiCaL; std Vec<u8> as io::Write executed for real. "
               "Terminal detection/colour policy part (a) and highlight pairing (c): see evidence for what this run covered.",
    design_ref="DESIGN.md section 5, C18",
)

# Properties not claimed, with the reason (kept current by hand; see DESIGN.md section 7).
NOT_APPLICABLE = {
    "C14": "text -> behaviour through serde_yaml/serde_json/toml plus std HashMap with the thread-local-seeded hasher (Kani ICE) and the typemap registry: three third-party parsers over symbolic documents are outside what CBMC can execute here; stubbing them away leaves nothing of the property (DESIGN.md section 7)",
}

# /repo commits that add guarded hooks (cfg log4rs_verif)
HOOK_COMMITS = []
