"""Registry of harnesses per property: which Kani harnesses decide it, in which tier,
under which caps; plus the text that goes into the evidence (functions encoded,
bounds, assumptions)."""


def H(name, tier="quick", timeout=600, mem_gb=8, kind="proof", **kw):
    d = dict(name=name, tier=tier, timeout=timeout, mem_gb=mem_gb, kind=kind)
    d.update(kw)
    return d


PROPS = {}

PROPS["C18"] = dict(
    functions=[
        "log4rs::encode::writer::ansi::AnsiWriter::<Vec<u8>>::set_style",
        "log4rs::encode::writer::ansi::color_byte",
    ],
    bounds="(b) all 9x9x3 = 243 styles (text colour or none x background or none x intensity or none) as three solver variables",
    outside="bytes arriving on a real terminal",
    assumptions=[
        "Vec<u8> as io::Write appends (std, executed for real)",
    ],
    harnesses=[
        H("c18_ansi::c18_ansi_all_styles", timeout=300, mem_gb=4,
          instance="AnsiWriter<Vec<u8>>", symbolic="text colour (9), background (9), intensity (3)",
          bound="unwind 18 (16-byte comparison loop)"),
        H("c18_ansi::c18_ansi_all_styles_witness", kind="witness", timeout=300, mem_gb=4),
    ],
)

PROPS["C18"].update(
    level_text="Bounded model checking of the real AnsiWriter::set_style over all 243 styles as solver variables against an "
               "independent SGR reference; any reachable panic (index, overflow) is a failed check. Solver-decided over the "
               "whole style space rather than sampled, which is what found the 13-byte sequence overflowing the 12-byte buffer.",
    level_note="Trusted: Kani's MIR->goto translation, CBMC, CaDiCaL; std Vec<u8> as io::Write executed for real. "
               "Terminal detection/colour policy part (a) and highlight pairing (c): see evidence for what this run covered.",
    design_ref="DESIGN.md section 5, C18",
)

# Properties not claimed, with the reason (kept current by hand; see DESIGN.md section 7).
NOT_APPLICABLE = {
    "C14": "text -> behaviour through serde_yaml/serde_json/toml plus std HashMap with the thread-local-seeded hasher (Kani ICE) and the typemap registry: three third-party parsers over symbolic documents are outside what CBMC can execute here; stubbing them away leaves nothing of the property (DESIGN.md section 7)",
}

# /repo commits that add guarded hooks (cfg log4rs_verif)
HOOK_COMMITS = ['5a2703e', '057fc64', '8991438', 'db83ae1', 'e6cb540', '32ad153', 'e8650e2', '576c8c7', '543b0d5', '0f2b23c', '0e5799d', '5cc9e68', '86dd40b', '7b40c7c', '1e620db', 'f1a4822', 'f6a74ef', '311bbd6', '0315d07', '053d572', '1880721', '9c5ec54', '898704b']

PROPS["C03"] = dict(
    functions=[
        "log4rs::ConfiguredLogger::log", "log4rs::ConfiguredLogger::enabled", "log4rs::Appender::append",
        "log4rs::filter::threshold::ThresholdFilter::filter",
    ],
    bounds="one logger node; <= 3 appenders x <= 3 filters (instances 2x0, 2x1 with a duplicate attachment, 2x2, 3x3); "
           "solver variables: logger threshold (6), record level (5), every filter response (3 each) or threshold level (6), "
           "per-appender failure flag",
    outside="chains longer than 3, more than 3 appenders; the error loop of <Logger as Log>::log (see C01/C15 R3 harness)",
    assumptions=[
        "hook FanOut constructs the private ConfiguredLogger/Appender values directly (no behaviour change)",
        "stub: std::backtrace::Backtrace::capture -> Backtrace::disabled() (no backtrace in error values)",
        "stub: <anyhow::Error as Drop>::drop -> no-op (error values leak; their drop glue is not the subject)",
        "-Z restrict-vtable: dyn calls resolve to implementations of the same trait method only",
    ],
    level_text="Bounded model checking of the real fan-out (ConfiguredLogger::log + Appender::append) and ThresholdFilter "
               "over all joint assignments of filter responses, thresholds, levels and failing appenders for the listed "
               "shapes; oracle = independent chain interpreter comparing per-appender delivery counts, exactly which "
               "filters were consulted, and the multiset of returned errors tagged by appender. Isolation follows because "
               "the per-appender equalities hold for all joint assignments.",
    level_note="Trusted: Kani/CBMC/CaDiCaL; shapes (number of appenders, chain length, attachment list) are enumerated "
               "instances, not solver variables.",
    design_ref="DESIGN.md section 5, C03",
    harnesses=[
        H("c03_filters::c03_2x2", timeout=600, mem_gb=6, instance="2 appenders x 2 response filters, attached [0,1]",
          symbolic="logger level, record level, 4 responses, 2 failure flags", bound="unwind 5"),
        H("c03_filters::c03_2x2_witness", kind="witness", timeout=600, mem_gb=6),
        H("c03_filters::c03_2x2_threshold", timeout=600, mem_gb=6, instance="2x2, real ThresholdFilter at (1,0)",
          symbolic="logger level, record level, threshold level, 3 responses, 2 failure flags", bound="unwind 5"),
        H("c03_filters::c03_2x1_dup", timeout=600, mem_gb=6, instance="2 appenders x 1 filter, attached [0,1,0]",
          symbolic="levels, 2 responses, 2 failure flags", bound="unwind 5"),
        H("c03_filters::c03_2x0", timeout=600, mem_gb=6, instance="2 appenders, no filters, attached [1,0]",
          symbolic="levels, 2 failure flags", bound="unwind 5"),
        H("c03_filters::c03_3x3", tier="thorough", timeout=3600, mem_gb=14, instance="3 appenders x 3 response filters",
          symbolic="levels, 9 responses, 3 failure flags", bound="unwind 6"),
        H("c03_filters::c03_3x3_threshold", tier="thorough", timeout=3600, mem_gb=14, instance="3x3, ThresholdFilter at (0,1), attached [2,0,1]",
          symbolic="levels, threshold, 8 responses, 3 failure flags", bound="unwind 6"),
    ],
)

# loops that only exist on phantom paths (the bit-packed io::Error repr is not decided during
# symbolic execution, so every io::Error drop site also explores "custom boxed error", whose
# candidates include anyhow's error objects with their Backtrace); a bound of 1 keeps them
# small, and their unwinding assertions are still proved by the solver.
BT_LOOPS = [(r"drop_glue::<\[std::backtrace::Backtrace(Symbol|Frame)\]>", 0, 1),
            # "custom boxed error" candidates of an io::Error drop include io::Error itself: without a bound the
            # phantom drop recurses to the harness bound at every drop site
            # the candidates of a phantom `Box<dyn ..>` drop include every type with a vtable, e.g. RightAlignWriter and its buffer
            (r"drop_glue::<\[log4rs::encode::pattern::BufferedOutput\]>", 0, 1),
            (r"^std::ptr::drop_glue::<std::io::Error>$", None, 2),
            (r"^<core::io::error::repr::Repr as std::ops::Drop>::drop$", None, 2)]

_c07_common = dict(timeout=1500, mem_gb=14, unwindset=BT_LOOPS)
PROPS["C07"] = dict(
    functions=[
        "FixedWindowRollerBuilder::build", "<FixedWindowRoller as Roll>::roll", "fixed_window::rotate",
        "fixed_window::move_file", "Compression::compress (None)", "<DeleteRoller as Roll>::roll",
        "append::env_util::expand_env_vars (as called by rotate)",
    ],
    bounds="(base, count) instances {0,1,3}x{0..4}; pattern kinds: index in file name, in a directory component, repeated, "
           "with $ENV{D} set/unset; solver variables: existence of every archive name base-1..base+count (gaps, stale "
           "extras), of a bystander file; 1-3 successive rolls; optional always-failing rename (cross-device fallback)",
    outside="compression (gzip/zstd are optional features over C libraries), background rotation (threads), "
            "file contents longer than 1 byte (contents are opaque ids: the roller never reads them except through fs::copy)",
    assumptions=[
        "E4 model file system replaces std::fs::{rename,copy,remove_file,create_dir_all} (stubs in harness/src/world.rs): "
        "rename of a missing source -> NotFound, onto a name whose directory does not exist -> NotFound, replaces the destination",
        "E6 std::env::var answered from a table",
        "stub: Backtrace::capture -> disabled; <anyhow::Error as Drop>::drop -> no-op; fault-free harnesses: "
        "<anyhow::Error as From<io::Error>>::from is cut (roll must not fail on a fault-free disk: asserted)",
        "hook FixedWindowRoller::verif_new builds the roller value directly (Compression::None); the builder's own "
        "checks are decided separately by the harnesses c07_build_*",
    ],
    level_text="Bounded model checking of the real roller code over every initial directory state of the window "
               "(each managed name present or absent) for the listed (base, count, pattern) instances and 1-3 successive "
               "rolls; oracle = array model of the window compared name by name, plus 'active path gone', 'bystander and "
               "names outside the window untouched', 'no unregistered path touched'. Counterexamples replay on the real "
               "file system in a fresh directory.",
    level_note="Trusted: Kani/CBMC/CaDiCaL; the model file system's rename/copy/remove semantics (stated in assumptions). "
               "base/count/pattern are enumerated instances; the directory state is the solver's.",
    design_ref="DESIGN.md section 5, C07",
    harnesses=[
        H("c07_window::c07_build_index", instance="FixedWindowRollerBuilder::build on /l/a.{}: accepted", symbolic="base and count over all of u32", bound="unwind 12", timeout=1800, mem_gb=12, unwindset=BT_LOOPS),
        H("c07_window::c07_build_index_witness", kind="witness", timeout=1800, mem_gb=12, unwindset=BT_LOOPS),
        H("c07_window::c07_build_noindex", instance="build on /l/a (no placeholder): rejected", symbolic="base, count", bound="unwind 12", timeout=1800, mem_gb=12, unwindset=BT_LOOPS),
        H("c07_window::c07_build_gz", tier="thorough", instance="build on /l/a.{}.gz: accepted exactly when the gzip feature is compiled in", symbolic="base, count", bound="unwind 12", timeout=1800, mem_gb=12, unwindset=BT_LOOPS),
        H("c07_window::c07_build_zst_dir", tier="thorough", instance="build on /l/{}/a.zst: accepted exactly when the zstd feature is compiled in", symbolic="base, count", bound="unwind 12", timeout=1800, mem_gb=12, unwindset=BT_LOOPS),
        H("c07_window::c07_delete", instance="DeleteRoller", symbolic="existence of an unrelated archive", bound="unwind 8", **_c07_common),
        H("c07_window::c07_file_b0_c0", instance="a.{} base 0 count 0", symbolic="window state, bystander", bound="unwind 8", **_c07_common),
        H("c07_window::c07_file_b0_c1", instance="a.{} base 0 count 1", symbolic="window state, bystander", bound="unwind 8", **_c07_common),
        H("c07_window::c07_file_b0_c2", instance="a.{} base 0 count 2", symbolic="window state (3 names), bystander", bound="unwind 8", **_c07_common),
        H("c07_window::c07_file_b0_c2_witness", kind="witness", **_c07_common),
        H("c07_window::c07_file_b1_c2", instance="a.{} base 1 count 2", symbolic="window state, name below the window, bystander", bound="unwind 8", **_c07_common),
        H("c07_window::c07_dir_b0_c2", instance="{}/a base 0 count 2 (index in a directory component)", symbolic="window state, bystander", bound="unwind 8", **_c07_common),
        H("c07_window::c07_dirfile_b0_c2", instance="{}/a.{} base 0 count 2 (index in a directory component AND in the file name)", symbolic="window state, bystander", bound="unwind 10", **_c07_common),
        H("c07_window::c07_dirfile_b1_c3", tier="thorough", instance="{}/a.{} base 1 count 3", symbolic="window state", bound="unwind 10", **_c07_common),
        H("c07_window::c07_file_bmax_c1", instance="a.{} base u32::MAX count 1 (top of the index range; class of the fixed finding)", symbolic="existence of the archive", bound="unwind 16", **_c07_common),
        H("c07_window::c07_file_b0_c3", tier="thorough", instance="a.{} base 0 count 3", symbolic="window state", bound="unwind 8", **_c07_common),
        H("c07_window::c07_file_b3_c2", tier="thorough", instance="a.{} base 3 count 2", symbolic="window state", bound="unwind 8", **_c07_common),
        H("c07_window::c07_file_b0_c2_two_rolls", tier="thorough", instance="a.{} base 0 count 2, 2 successive rolls", symbolic="window state", bound="unwind 8", **_c07_common),
        H("c07_window::c07_file_b1_c4", tier="thorough", instance="a.{} base 1 count 4", symbolic="window state", bound="unwind 8", **_c07_common),
        H("c07_window::c07_file_b0_c2_xdev", tier="thorough", instance="a.{} base 0 count 2, rename always fails (copy+remove fallback)", symbolic="window state", bound="unwind 8", **_c07_common),
        H("c07_window::c07_dir_b1_c3", tier="thorough", instance="{}/a base 1 count 3", symbolic="window state", bound="unwind 8", **_c07_common),
        H("c07_window::c07_rep_b0_c2", tier="thorough", instance="a.{}.{} base 0 count 2 (repeated placeholder)", symbolic="window state", bound="unwind 10", **_c07_common),
        H("c07_window::c07_envset_b0_c2", tier="thorough", instance="a$ENV{D}.{} with D=x", symbolic="window state", bound="unwind 16", timeout=3600, mem_gb=14, unwindset=BT_LOOPS),
        H("c07_window::c07_envunset_b0_c2", tier="thorough", instance="a$ENV{D}.{} with D unset", symbolic="window state", bound="unwind 16", **_c07_common),
    ],
)

# recursion bounds for the logger tree (children live on the heap, where the symbolic executor
# does not propagate constants: without a bound per function the phantom levels multiply)
def TREE_REC(depth, add=None):
    # `add`: exact number of nested add() frames of the instance (a name of k components inserted below the root: k frames)
    return [(r"^log4rs::ConfiguredLogger::add$", None, add if add is not None else depth + 1),
            (r"^log4rs::ConfiguredLogger::max_log_level$", None, depth + 1),
            # dropping a tree (the old configuration after a swap) recurses like the tree itself
            (r"^std::ptr::drop_glue::<log4rs::ConfiguredLogger>$", None, depth + 1),
            # the harness' own loops over the target pool (up to 16 targets) and the declarations
            (r"^c01_tree::body2$", "*", 20)]

_tree = dict(timeout=1500, mem_gb=10)
_T_SMALL = "targets a, a::b, a::bc, a::b::c, x, '', 'a:', 'a:::b'"
_T_CHAIN = "16 targets: a, a::b, a::b::c, a::b::c::x, a::x, a::bx, ax, x::a, '', ':', '::', 'a:', 'a::', 'a:::b', 'a::b:', '::a'"
_tree_sym = "root level, every declared logger's level, every attached appender id (3 appenders), record level"
_tree_harnesses = [
    H("c01_tree::tree_a", instance="declared: a(additive,1 att); root 1 att; " + _T_SMALL, symbolic=_tree_sym, bound="unwind 9, add recursion 2", unwindset=TREE_REC(1), **_tree),
    H("c01_tree::tree_a_witness", kind="witness", unwindset=TREE_REC(1), **_tree),
    H("c01_tree::tree_a_na", instance="declared: a(non-additive)", symbolic=_tree_sym, bound="unwind 9", unwindset=TREE_REC(1), **_tree),
    H("c01_tree::tree_ab", instance="declared: a::b only (implied intermediate a)", symbolic=_tree_sym, bound="unwind 9", unwindset=TREE_REC(2), **_tree),
    H("c01_tree::tree_a_ab", instance="declared: a, a::b (descend into an existing child)", symbolic=_tree_sym, bound="unwind 9", unwindset=TREE_REC(2), **_tree),
    H("c01_tree::tree_ana_ab", instance="declared: a(non-additive), a::b(additive): chain broken above", symbolic=_tree_sym, bound="unwind 9", unwindset=TREE_REC(2), **_tree),
    H("c01_tree::tree_sib", instance="declared: a::b, a::bc(non-additive): textual-not-component prefix", symbolic=_tree_sym, bound="unwind 9", unwindset=TREE_REC(2), **_tree),
    H("c01_tree::tree_ab_na", instance="declared: a::b(non-additive); root 2 att (implied intermediate created for a non-additive logger)", symbolic=_tree_sym, bound="unwind 9", unwindset=TREE_REC(2), **_tree),
    H("c01_tree::tree_a_ab_na", tier="thorough", instance="declared: a, a::b(non-additive)", symbolic=_tree_sym, bound="unwind 9", unwindset=TREE_REC(2), **_tree),
    H("c01_tree::tree_lead", tier="thorough", instance="declared: ::a (empty first component); " + _T_CHAIN, symbolic=_tree_sym, bound="unwind 9", unwindset=TREE_REC(2), **_tree),
    H("c01_tree::tree_a_ba", tier="thorough", instance="declared: a, b::a; root 0 att; " + _T_CHAIN, symbolic=_tree_sym, bound="unwind 9", unwindset=TREE_REC(2), **_tree),
    H("c01_tree::tree_a_chain_targets", tier="thorough", instance="declared: a; " + _T_CHAIN, symbolic=_tree_sym, bound="unwind 11", unwindset=TREE_REC(1), **_tree),
]
_tree_assumptions = [
    "hook Tree wraps the private ConfiguredLogger (no behaviour change); loggers are added in order of name length, as "
    "SharedLogger::new_with_err_handler does after its sort (the sort + name->index resolution: harness group R3)",
    "E1: FnvHashMap<String, ConfiguredLogger> is replaced by a fixed-capacity association list (capacity 3 per node) "
    "with bytewise key comparison; contract relied upon: one value per key, lookup finds it, iteration visits every entry once",
    "per-function recursion bounds (--unwindset) for add / max_log_level = depth of the instance + 1; their unwinding "
    "assertions are checked",
]

PROPS["C01"] = dict(
    functions=["log4rs::ConfiguredLogger::add", "log4rs::ConfiguredLogger::find", "log4rs::ConfiguredLogger::enabled"],
    bounds="<= 2 declared loggers, depth <= 3 (an implied intermediate counts), 3 appenders, <= 2 attachments per logger; tree shape, additive flags, number "
           "of attachments and the target pool are enumerated instances; levels and attached appender ids are solver variables",
    outside="free-text targets and names (pools only); three or more declared loggers (tree_3chain, tree_3sib, tree_a_abc .. exhaust 10-14 GB within 2-3 min, also with exact recursion bounds; they stay in the harness crate and run natively); declaration-order independence of the "
            "constructor's sort (R3) and delivery through <Logger as Log>::log (fan-out unit: C03)",
    assumptions=_tree_assumptions,
    level_text="Bounded model checking of the real tree code (add/find) for a list of tree skeletons (chains, implied "
               "intermediates, siblings sharing a textual prefix, a leading '::', non-additive loggers at every depth) and a "
               "pool of targets (matching, partially matching, empty, stray colons); for every instance the solver quantifies over "
               "all levels and attachment choices; oracle = reference evaluator on hand-written component lists (effective logger "
               "= longest component-wise prefix; attachments = own + inherited along the unbroken additive chain), compared as "
               "per-appender hit counts so duplicates and misses both show.",
    level_note="Trusted: Kani/CBMC/CaDiCaL and the container model E1. Shapes and targets are enumerated, not symbolic "
               "(symbolic shapes did not fit in memory, DESIGN.md section 2).",
    design_ref="DESIGN.md section 5, C01",
    harnesses=_tree_harnesses,
)

_max = dict(timeout=1500, mem_gb=10)
_max14 = dict(timeout=1800, mem_gb=14)
def SHAPE_REC(depth):
    return [(r"^log4rs::ConfiguredLogger::max_log_level$", None, depth),
            (r"^log4rs::verif_hooks::Tree::from_shape::build$", None, depth),
            (r"^std::ptr::drop_glue::<log4rs::ConfiguredLogger>$", None, 2)]
PROPS["C02"] = dict(
    functions=["log4rs::ConfiguredLogger::max_log_level", "log4rs::ConfiguredLogger::find", "log4rs::ConfiguredLogger::enabled",
               "log4rs::ConfiguredLogger::add"],
    bounds="enabled(): the instances of C01; max_log_level(): (i) trees built by the real add(): the root plus one declared logger, with or without an implied intermediate (a, a::b); (ii) trees assembled node by node (hook Tree::from_shape): chain of 3, fork, two-level fork, 6-node bush, every node declared; all levels symbolic",
    outside="max_log_level() on add()-built trees with two or more declared loggers (the second add descends into a heap-allocated child: > 12 GB, DESIGN.md 9.6) - the shape-built family (ii) covers those shapes without the insertion path; chains of 4 and more (10 GB); the history part (init_config / set_config installing log::set_max_level) is exercised by C15's harnesses; the log! macros are not",
    assumptions=_tree_assumptions,
    level_text="Bounded model checking of the real tree code: for every instance and all level assignments enabled(target, level) "
               "equals 'level passes the effective logger's threshold' (reference on component lists) and max_log_level() equals "
               "the most verbose level among root and declared loggers.",
    level_note="Trusted: Kani/CBMC/CaDiCaL and the container model E1. Tree shapes are enumerated instances.",
    design_ref="DESIGN.md section 5, C02",
    harnesses=[
        H("c01_tree::max_a", instance="root + a", symbolic="all levels", bound="unwind 6, recursion 2", unwindset=TREE_REC(1), **_max),
        H("c01_tree::max_a_witness", kind="witness", unwindset=TREE_REC(1), **_max),
        H("c01_tree::max_ab", instance="root + a::b (implied a)", symbolic="all levels", bound="unwind 6, recursion 3", unwindset=TREE_REC(2), **_max),
        # max_log_level() on trees assembled node by node (Tree::from_shape): several declared loggers
        H("c02_max::max_chain3", instance="root - a - a::b (all declared)", symbolic="3 levels", bound="unwind 8, recursion 3", unwindset=SHAPE_REC(3), **_max14),
        H("c02_max::max_chain3_witness", kind="witness", unwindset=SHAPE_REC(3), **_max14),
        H("c02_max::max_fork", instance="root - {a, b}", symbolic="3 levels", bound="unwind 8, recursion 2", unwindset=SHAPE_REC(2), **_max14),
        H("c02_max::max_fork_deep", tier="thorough", instance="root - {a - a::c, b - b::d}", symbolic="5 levels", bound="unwind 8, recursion 3", unwindset=SHAPE_REC(3), **_max14),
        H("c02_max::max_bush", tier="thorough", instance="root - {a - {a::c, a::d}, b - b::e}", symbolic="6 levels", bound="unwind 8, recursion 3", unwindset=SHAPE_REC(3), timeout=3600, mem_gb=14),
        # enabled() on the routing instances
        H("c01_tree::tree_a", instance="enabled() on declared: a; " + _T_SMALL, symbolic=_tree_sym, bound="unwind 9", unwindset=TREE_REC(1), **_tree),
        H("c01_tree::tree_ab", instance="enabled() on declared: a::b (a is an implied, never declared node and keeps the root's level); " + _T_SMALL, symbolic=_tree_sym, bound="unwind 9", unwindset=TREE_REC(2), **_tree),
        H("c01_tree::tree_a_ab", tier="thorough", instance="enabled() on declared: a, a::b", symbolic=_tree_sym, bound="unwind 9", unwindset=TREE_REC(2), **_tree),
        H("c01_tree::tree_sib", tier="thorough", instance="enabled() on declared: a::b, a::bc", symbolic=_tree_sym, bound="unwind 9", unwindset=TREE_REC(2), **_tree),
    ],
)

PROPS["C13"] = dict(
    functions=["log4rs::config::runtime::check_logger_name"],
    bounds="names of <= 7 units over the alphabet {a, :} and of <= 4 units over {a, :, 'é' (2 bytes)}: every such string",
    outside="the builder part (duplicate detection, dangling references, lossy filtering): see evidence / DESIGN.md",
    assumptions=["hook verif_check_logger_name forwards to the private function",
                 "the harness builds the &str with from_utf8_unchecked from bytes that are valid UTF-8 by construction"],
    level_text="Bounded model checking of the real check_logger_name over every string up to the length bound over the "
               "syntax alphabet (letters and colons, plus a multi-byte letter), against a reference by maximal colon runs.",
    level_note="Trusted: Kani/CBMC/CaDiCaL. Only the name-validity half of C13 is decided here.",
    design_ref="DESIGN.md section 5, C13",
    harnesses=[
        H("c13_names::names_len5", timeout=900, mem_gb=8, instance="<= 5 bytes over {a,:}", symbolic="length and every byte", bound="unwind 9"),
        H("c13_names::names_len5_witness", kind="witness", timeout=900, mem_gb=8),
        H("c13_names::names_len4_multibyte", timeout=900, mem_gb=8, instance="<= 4 units over {a,:,é}", symbolic="length and every unit", bound="unwind 10"),
        H("c13_names::names_colons_plus3", timeout=900, mem_gb=8, instance="'::' + <= 3 bytes over {a,:}", symbolic="length and every free byte", bound="unwind 10"),
        H("c13_names::names_a_colons_plus3", timeout=900, mem_gb=8, instance="'a::' + <= 3 bytes over {a,:}", symbolic="length and every free byte", bound="unwind 10"),
        H("c13_names::names_ab_colons_plus3", tier="thorough", timeout=1800, mem_gb=8, instance="'ab:' + <= 3 bytes over {a,:}", symbolic="length and every free byte", bound="unwind 10"),
        H("c13_names::names_len7", tier="thorough", timeout=3600, mem_gb=12, instance="<= 7 bytes over {a,:}", symbolic="length and every byte", bound="unwind 10"),
    ],
)

_t = dict(timeout=900, mem_gb=8)
_tsym = "the instant (every second of the zone's table year, 2^25 values), the multiplier"
def _TN(name, inst, tier="quick", **kw):
    d = dict(_t); d.update(bound="unwind 4"); d.update(kw)
    return H("c16_time::" + name, tier=tier, instance=inst, symbolic=_tsym, **d)

PROPS["C16"] = dict(
    functions=["TimeTrigger::get_next_time", "TimeTrigger::local_after", "TimeTrigger::new", "<TimeTrigger as Trigger>::trigger",
               "chrono calendar arithmetic (NaiveDate/NaiveDateTime/DateTime), executed for real"],
    bounds="units Second/Minute/Hour/Day (plain and modulated), Week (plain; modulated in UTC 2024) and Month/Year (plain); zones UTC, Asia/Kolkata, America/New_York 2024, Europe/Berlin 2024, "
           "Australia/Lord_Howe 2024, America/Sao_Paulo 2018, America/Havana 2024 (real transition instants); every second of "
           "the table year as the current instant; multiplier 1..3 as a solver variable and 5, 7, 13, 24, 60, 100 as instances; "
           "modulate on/off per instance; trigger(): 1-2 arrivals at symbolic later instants",
    outside="modulated Month/Year (month-of-year arithmetic beyond the table year), modulated Week in other zones and in years that do not start on a Monday, "
            "max_random_delay > 0 (thread-local RNG), sub-second instants, other zones and years, n = 0 and absurd multipliers",
    assumptions=[
        "E5: <Local as TimeZone>::offset_from_{utc,local}_datetime are replaced by a two-transition zone model that mirrors "
        "chrono 0.4's resolution rules (inclusive overlap ends, first skipped second maps to the old offset) with the real "
        "transition instants of the tz database; Local::now / Utc::now return the harness instant; natively TZ=<zone> and the "
        "guarded clock override are used instead",
        "'wherever the zone's UTC offset does not change in between' is read as: no offset change between the start of the "
        "current unit and the next boundary (DESIGN.md, C16)",
    ],
    level_text="Bounded model checking of the real schedule computation with the current instant as a solver variable over a "
               "whole year per zone (so every DST gap and overlap second, every unit boundary, leap day and year end of that "
               "year is covered, not a grid), against an integer reference (no chrono): next > now always; on a unit boundary in "
               "local time whenever no offset change intervenes; trigger() fires exactly on the first arrival at or after the "
               "scheduled instant and reschedules strictly into the future; any panic (unwrap on ambiguous/missing local time) "
               "is a failed check.",
    level_note="Trusted: Kani/CBMC/CaDiCaL; the zone model E5 (validated natively against the tz database by replay).",
    design_ref="DESIGN.md section 5, C16",
    harnesses=[
        _TN("next_utc_second", "UTC, Second, plain, n in 1..3"),
        H("c16_time::next_utc_second_witness", kind="witness", **_t),
        _TN("next_utc_minute_mod", "UTC, Minute, modulate, n in 1..3"),
        _TN("next_kolkata_hour_mod", "Asia/Kolkata (+5:30), Hour, modulate, n in 1..3"),
        _TN("next_ny_minute", "America/New_York 2024, Minute, plain, n in 1..3"),
        _TN("next_ny_hour_mod", "America/New_York 2024, Hour, modulate, n in 1..3"),
        _TN("next_berlin_day", "Europe/Berlin 2024, Day, plain, n in 1..3"),
        _TN("next_havana_day", "America/Havana 2024 (switch at local midnight), Day, plain, n in 1..3"),
        _TN("known_ny_hour_ambiguous", "America/New_York, Hour, +-2 h around the 2024-11-03 overlap (class of the fixed finding)"),
        _TN("known_havana_day_gap", "America/Havana, Day, +-25 h around the 2024-03-10 midnight gap (class of the fixed finding)"),
        _TN("trigger_utc_minute", "UTC, Minute: new() + 1 trigger() call at a later instant", bound="unwind 5"),
        _TN("trigger_utc_minute_2", "UTC, Minute: new() + 2 trigger() calls", tier="thorough", bound="unwind 5", timeout=3600, mem_gb=14),
        _TN("next_utc_week", "UTC, Week, plain, n in 1..3", tier="thorough", bound="unwind 14", timeout=1800),
        _TN("next_berlin_week", "Europe/Berlin, Week, plain", bound="unwind 14", timeout=1800),
        _TN("next_utc_week_mod", "UTC 2024, Week, modulate (ISO week index), n in 1..3; the expected boundary may lie past the year end", bound="unwind 14", timeout=1800),
        _TN("next_kolkata_month", "Asia/Kolkata, Month, plain (result inside the table year)", bound="unwind 14", timeout=1800),
        _TN("next_ny_month", "America/New_York, Month, plain", bound="unwind 14", timeout=1800),
        _TN("next_utc_year", "UTC, Year, plain, n in 1..3", tier="thorough", bound="unwind 14", timeout=1800),
        _TN("next_saopaulo_year", "America/Sao_Paulo 2018, Year, plain", tier="thorough", bound="unwind 14", timeout=1800),
        _TN("next_kolkata_day", "Asia/Kolkata, Day, plain", tier="thorough"),
        _TN("next_ny_day_mod", "America/New_York, Day, modulate", tier="thorough"),
        _TN("next_berlin_second_mod", "Europe/Berlin, Second, modulate", tier="thorough"),
        _TN("next_lordhowe_hour", "Australia/Lord_Howe (30-minute DST), Hour, plain", tier="thorough"),
        _TN("next_saopaulo_day_mod", "America/Sao_Paulo 2018 (switch at local midnight, year starts in DST), Day, modulate", tier="thorough"),
        _TN("next_utc_second_mod_n7", "UTC, Second, modulate, n = 7", tier="thorough"),
        _TN("next_utc_minute_mod_n13", "UTC, Minute, modulate, n = 13", tier="thorough"),
        _TN("next_ny_hour_mod_n5", "America/New_York, Hour, modulate, n = 5", tier="thorough"),
        _TN("next_berlin_hour_n24", "Europe/Berlin, Hour, plain, n = 24", tier="thorough"),
        _TN("next_kolkata_minute_n60", "Asia/Kolkata, Minute, plain, n = 60", tier="thorough"),
        _TN("next_ny_day_mod_n100", "America/New_York, Day, modulate, n = 100", tier="thorough"),
        _TN("trigger_ny_hour_mod", "America/New_York, Hour, modulate: new() + 2 trigger() calls", tier="thorough", bound="unwind 5", timeout=3600, mem_gb=14),
    ],
)

_l = dict(timeout=1200, mem_gb=10)
def _LS(name, inst, tier="quick", **kw):
    d = dict(_l); d.update(bound="unwind 8 (sizes) / 10 (intervals)"); d.update(kw)
    return H("c20_literals::" + name, tier=tier, instance=inst,
             symbolic="number of digits, every digit, blank before / after the unit, letter-case mask", **d)

PROPS["C20"] = dict(
    functions=["size::deserialize_limit (visitor: visit_u64 / visit_i64 / visit_str)", "derived SizeTriggerConfig::deserialize",
               "<TimeTriggerInterval as Deserialize>::deserialize (visitor)", "str::find / trim / parse / eq_ignore_ascii_case (std, executed for real)"],
    bounds="string scalars '<0-2 or 0-3 digits><blank?><unit><blank?>' with the unit word an instance (every alias of the "
           "statement plus junk suffixes x, .5kb, kbb, -, secondss) and all letter cases; 20-digit numbers around the overflow "
           "thresholds of each multiplier with the last two digits free; integer scalars over all of u64 / i64",
    outside="more than 3 free digits together with a unit; refresh_rate (humantime); leading blanks; YAML/JSON text level",
    assumptions=["serde's value deserializers (MapDeserializer, forward_to_deserialize_any) drive the real visitors; the "
                 "error type discards messages (no formatting)"],
    level_text="Bounded model checking of the real literal parsers: for every unit alias and junk suffix, every digit string up "
               "to the bound, both blank placements and every letter-case mask the result equals the u128 reference (number x "
               "multiplier if it fits, else error); overflow thresholds are covered by 20-digit instances with free last digits; "
               "integer scalar forms are covered over the whole 64-bit range.",
    level_note="Trusted: Kani/CBMC/CaDiCaL. The unit word is an instance parameter, digits/blanks/case are the solver's.",
    design_ref="DESIGN.md section 5, C20",
    harnesses=[
        H("c20_literals::size_int", instance="integer scalars", symbolic="all u64, all i64", bound="unwind 8", **_l),
        H("c20_literals::interval_int", instance="integer scalars", symbolic="all u64, all i64", bound="unwind 8", **_l),
        _LS("size_bare_3", "bare number, <= 3 digits"),
        _LS("size_kb_2", "unit kb"), H("c20_literals::size_kb_2_witness", kind="witness", **_l),
        _LS("size_mib_2", "unit mib"), _LS("size_tb_2", "unit tb"), _LS("size_junk_frac", "junk '.5kb'"),
        _LS("size_thr_kb", "17 fixed digits around 2^64/1024 + 2 free digits + kb", bound="unwind 24"),
        _LS("interval_bare_3", "bare number, <= 3 digits"), _LS("interval_minutes", "unit minutes"),
        _LS("interval_week", "unit week"), _LS("interval_junk_secondss", "junk 'secondss'"),
        _LS("size_b_2", "unit b", tier="thorough"), _LS("size_kib_2", "unit kib", tier="thorough"),
        _LS("size_mb_2", "unit mb", tier="thorough"), _LS("size_gb_2", "unit gb", tier="thorough"),
        _LS("size_gib_2", "unit gib", tier="thorough"), _LS("size_tib_2", "unit tib", tier="thorough"),
        _LS("size_junk_x", "junk 'x'", tier="thorough"), _LS("size_junk_kbb", "junk 'kbb'", tier="thorough"),
        _LS("size_junk_minus", "junk '-'", tier="thorough"),
        _LS("size_thr_bare", "18 fixed digits of 2^64 + 2 free digits", tier="thorough", bound="unwind 24"),
        _LS("size_thr_tb", "6 fixed digits around 2^64/1024^4 + 2 free digits + tb", tier="thorough", bound="unwind 24"),
        _LS("interval_second", "unit second", tier="thorough"), _LS("interval_seconds", "unit seconds", tier="thorough"),
        _LS("interval_minute", "unit minute", tier="thorough"), _LS("interval_hour", "unit hour", tier="thorough"),
        _LS("interval_hours", "unit hours", tier="thorough"), _LS("interval_day", "unit day", tier="thorough"),
        _LS("interval_days", "unit days", tier="thorough"), _LS("interval_weeks", "unit weeks", tier="thorough"),
        _LS("interval_month", "unit month", tier="thorough"), _LS("interval_months", "unit months", tier="thorough"),
        _LS("interval_year", "unit year", tier="thorough"), _LS("interval_years", "unit years", tier="thorough"),
        _LS("interval_junk_x", "junk 'x'", tier="thorough"),
    ],
)

# ------------------------------------------------------------------------------------------
# appenders over the model disk
HARNESS_LOOPS = [(r"^(c04_file|c05_rolling|c08_faults|world::fs|wfile)::", "*", 26),
                 (r"^<std::fs::File as std::io::Write>::write$", "*", 14), (r"^<std::io::BufWriter<.*> as std::io::Write>::write", "*", 26),
                 (r"BufWriter::<.*>::flush_buf$", "*", 2), (r"^std::fs::OpenOptions::open", "*", 26),
                 (r"^std::fs::(rename|copy|remove_file|create_dir_all)", "*", 26)]
_fs_assumptions = [
    "E4 model file system and file handles (harness/src/world.rs, wfile.rs) replace OpenOptions::{append,truncate,open}, "
    "File::metadata, Metadata::len, <File as Write>::{write,flush}, the closing of descriptors, fs::{rename,create_dir_all}: a handle "
    "refers to an inode, so a writer that survives a rename keeps writing into the renamed file; writes are complete (no short writes)",
    "E3: parking_lot::Mutex is replaced by a std Mutex wrapper (mutual exclusion trusted)",
    "std::io::BufWriter<File> is the real one (1 KiB buffer; every append of these instances fits it and is flushed by the appender)",
    "E9: the fallback PatternEncoder named by the builders is cut (harnesses install their own encoder); Backtrace::capture -> "
    "disabled; <anyhow::Error as Drop>::drop -> no-op; fault-free harnesses cut <anyhow::Error as From<io::Error>>::from",
    "harness loops over the 24-byte model files get a per-loop bound of 26 (--unwindset), everything else the harness bound of 10",
]
_a = dict(timeout=1800, mem_gb=12, unwindset=HARNESS_LOOPS + BT_LOOPS)

PROPS["C04"] = dict(
    functions=["FileAppenderBuilder::build", "<FileAppender as Append>::append", "SimpleWriter", "std::io::BufWriter<File> (std, executed for real)"],
    bounds="1-3 successive appends of records of 0..4 bytes written in one or two chunks, 0..3 pre-existing bytes, both open modes; "
           "content observed after every single append",
    outside="real thread parallelism (Kani has no threads; the writer is confined to the mutex, see assumptions), records larger than "
            "the 1 KiB buffer, short writes of the OS",
    assumptions=_fs_assumptions,
    level_text="Bounded model checking of the real file appender over all record lengths, chunkings, pre-existing contents and both "
               "open modes for histories of up to 3 appends; after every append the model disk's bytes at the path must equal (old "
               "content if append mode) ++ record_1 .. record_i exactly - so a dropped flush, a swapped append/truncate flag or a flush "
               "before the encode shows as a byte mismatch.",
    level_note="Trusted: Kani/CBMC/CaDiCaL and the environment models E3/E4. Interleavings are not explored (see outside).",
    design_ref="DESIGN.md section 5, C04",
    harnesses=[
        H("c04_file::file_1rec", instance="1 append", symbolic="pre-existing length 0..2 and existence, open mode, record length 0..4, chunking", bound="unwind 10", **_a),
        H("c04_file::file_1rec_witness", kind="witness", **_a),
        H("c04_file::file_2rec", instance="2 appends", symbolic="as above per record", bound="unwind 10", **_a),
        H("c04_file::file_3rec", tier="thorough", instance="3 appends, up to 3 pre-existing bytes", symbolic="as above", bound="unwind 10", timeout=3600, mem_gb=14, unwindset=HARNESS_LOOPS + BT_LOOPS),
    ],
)

_r_sym = "pre-existing length 0..2, open mode, record lengths 0..3, roll decision at every policy consultation (or trigger parameter), restart"
PROPS["C05"] = dict(
    functions=["RollingFileAppenderBuilder::build", "<RollingFileAppender as Append>::append", "RollingFileAppender::get_writer",
               "LogWriter::{write,flush}", "LogFile::{roll,len_estimate}", "std::io::BufWriter<File> (std, executed for real)",
               "CompoundPolicy::process (unit harness c06_triggers::compound_policy)"],
    bounds="histories of 1-3 appends (records 0..3 bytes), optional restart after the first append, pre- and post-processing "
           "policies, every roll decision a solver variable; one archive name (the roller is abstract here: rename to the archive; "
           "the real rollers are decided in C07)",
    outside="compression, background rotation, real thread parallelism, records larger than the 1 KiB buffer; composition with the "
            "real roller in one harness",
    assumptions=_fs_assumptions + ["the harness Policy performs the roll by renaming the active file to the archive name after calling "
                                   "the real LogFile::roll (the documented Roll contract)"],
    level_text="Bounded model checking of the real rolling appender against a stream model: after every append the active file and "
               "the archive must hold exactly the bytes the record stream prescribes (whole records, in write order, none twice, none "
               "missing) for every combination of roll decisions, record sizes, open mode and a restart.",
    level_note="Trusted: Kani/CBMC/CaDiCaL, E3/E4. Assume-guarantee split at the Roll trait: appender here, rollers in C07.",
    design_ref="DESIGN.md section 5, C05",
    harnesses=[
        H("c05_rolling::roll_plan_post_1", instance="post-processing policy, 1 append", symbolic=_r_sym, bound="unwind 10", **_a),
        H("c05_rolling::roll_plan_post_1_witness", kind="witness", **_a),
        H("c05_rolling::roll_plan_pre_1", instance="pre-processing policy, 1 append", symbolic=_r_sym, bound="unwind 10", **_a),
        H("c05_rolling::roll_plan_post_2", instance="post-processing policy, 2 appends", symbolic=_r_sym, bound="unwind 10", **_a),
        H("c05_rolling::roll_plan_pre_2", tier="thorough", instance="pre-processing policy, 2 appends", symbolic=_r_sym, bound="unwind 10", timeout=3600, mem_gb=14, unwindset=HARNESS_LOOPS + BT_LOOPS),
        H("c05_rolling::roll_plan_post_3_restart", tier="thorough", instance="post-processing, 3 appends, optional restart", symbolic=_r_sym, bound="unwind 10", timeout=3600, mem_gb=14, unwindset=HARNESS_LOOPS + BT_LOOPS),
        H("c06_triggers::compound_policy", instance="CompoundPolicy::process with harness trigger/roller", symbolic="trigger answer (no/yes/error), roller failure, pre flag", bound="unwind 6", timeout=900, mem_gb=8),
    ],
)

PROPS["C06"] = dict(
    functions=["SizeTrigger::trigger", "<RollingFileAppender as Append>::append", "LogWriter::write (len accounting)", "RollingFileAppender::get_writer (initial len)",
               "LogFile::len_estimate"],
    bounds="trigger unit: all limits and sizes in u64; appender: limit 0..6, pre-existing size 0..2, 2-3 records of 0..3 bytes, both open "
           "modes, one restart",
    outside="multi-byte text (record bytes are opaque here), records larger than the 1 KiB buffer, len near u64::MAX in the appender",
    assumptions=_fs_assumptions,
    level_text="Bounded model checking: (unit) the size trigger answers 'roll' exactly when the size exceeds the limit, over all of "
               "u64 x u64; (appender) a harness policy compares LogFile::len_estimate() with the true size of the active file at every "
               "consultation and decides with the real SizeTrigger; rotation must happen exactly after the appends that leave the file "
               "larger than the limit and the active file never stays above the limit.",
    level_note="Trusted: Kani/CBMC/CaDiCaL, E3/E4.",
    design_ref="DESIGN.md section 5, C06",
    harnesses=[
        H("c06_triggers::size_trigger", instance="SizeTrigger unit", symbolic="limit, size: all of u64", bound="unwind 4", timeout=600, mem_gb=6),
        H("c06_triggers::size_trigger_witness", kind="witness", timeout=600, mem_gb=6),
        H("c05_rolling::roll_size_2", tier="thorough", instance="appender + real SizeTrigger, 2 appends", symbolic="limit 0..6, pre-existing 0..2, open mode, record lengths", bound="unwind 10", **_a),
        H("c05_rolling::roll_size_3_restart", tier="thorough", instance="appender + real SizeTrigger, 3 appends, optional restart", symbolic="as above", bound="unwind 10", timeout=3600, mem_gb=14, unwindset=HARNESS_LOOPS + BT_LOOPS),
    ],
)

PROPS["C17"] = dict(
    functions=["OnStartUpTrigger::{new,trigger}", "<RollingFileAppender as Append>::append (pre-processing path)"],
    bounds="trigger unit: min_size and three observed sizes over all of u64; appender: min_size 0..3, pre-existing 0..2 bytes, 2 appends",
    outside="simultaneous first appends from several threads (the Once and the appender mutex are trusted)",
    assumptions=_fs_assumptions,
    level_text="Bounded model checking: the start-up trigger returns true at most once, only on its first consultation and exactly "
               "when the size seen then is at least min_size; in the appender the pre-existing bytes end up in the archive and the "
               "first new record starts a fresh file (stream model of C05).",
    level_note="Trusted: Kani/CBMC/CaDiCaL, std::sync::Once, E3/E4.",
    design_ref="DESIGN.md section 5, C17",
    harnesses=[
        H("c06_triggers::onstartup_trigger", instance="OnStartUpTrigger unit, 3 calls", symbolic="min_size, three sizes: all of u64", bound="unwind 4", timeout=600, mem_gb=6),
        H("c06_triggers::onstartup_trigger_witness", kind="witness", timeout=600, mem_gb=6),
        H("c05_rolling::roll_startup_2", tier="thorough", instance="appender + real OnStartUpTrigger, 2 appends", symbolic="min_size 0..3, pre-existing 0..2, record lengths", bound="unwind 10", **_a),
    ],
)

# ------------------------------------------------------------------------------------------
# the width writers call each other through `&mut dyn encode::Write`; per-function recursion bounds keep
# the fan-out at the nesting depth of the instance (+1); their unwinding assertions stay on
WRITE_REC = [(r"as std::io::Write>::flush$", None, 1),  # never called by the code under check: only reached from phantom drops
             (r"as std::io::Write>::(write|write_all|write_fmt)$", None, 3),
             (r"as log4rs::encode::Write>::set_style$", None, 3),
             (r"^log4rs::encode::pattern::Chunk::encode$", None, 2),
             (r"^log4rs::encode::pattern::FormattedChunk::encode$", None, 2)]
SINK_LOOPS = [(r"^<c12_json::BigSink as std::io::Write>::write", "*", 64),
              (r"^<(c10_width::Sink|c09_pattern::Rec) as std::io::Write>::write", "*", 20),
              (r"^c12_json::Out::", "*", 64), (r"^(c12_json|c09_pattern|c10_width|c11_safe)::body", "*", 300)]
_p = dict(timeout=1800, mem_gb=12, unwindset=WRITE_REC + SINK_LOOPS + BT_LOOPS)
_pat_assumptions = [
    "E7: thread name / system thread id are constants under the guard (std's thread::current() and the TID thread-local cannot be "
    "compiled by Kani); thread_id::get, process::id, log_mdc::get, Local::now / Utc::now and the Local zone are stubbed (fixed values)",
    "the sink is a harness encode::Write that records bytes (and style calls) and never fails",
]
PROPS["C10"] = dict(
    functions=["Chunk::encode (Formatted)", "MaxWidthWriter::write", "LeftAlignWriter::{write,finish}", "RightAlignWriter::{write,finish}",
               "is_char_boundary", "char_starts", "FormattedChunk::encode (Align)"],
    bounds="text of 0..3 scalars of 1-3 bytes each (4 bytes in one instance) split into 1-3 literal pieces at scalar boundaries; "
           "m, M in 0..4 with m <= M; which of m / M is present, alignment and fill ('~', ' ', 'é', '€', '{') are instances; short "
           "writes of the sink (pieces ending inside a scalar) in two instances",
    outside="nested width specs, combining marks (counted as scalars), m > M, widths above 4; Parser::parameters (see C11)",
    assumptions=_pat_assumptions + ["hook verif_encode_padded builds the Chunk tree {(<pieces>):<spec>} directly and runs the real Chunk::encode"],
    level_text="Bounded model checking of the real width/alignment writers: for every text, split, m and M within the bounds the bytes "
               "written equal 'first M scalars, padded with the fill to m scalars on the chosen side' byte for byte, hence valid UTF-8 "
               "and at most M characters.",
    level_note="Trusted: Kani/CBMC/CaDiCaL. Writer composition (which bounds exist, alignment, fill) is enumerated.",
    design_ref="DESIGN.md section 5, C10",
    harnesses=[
        H("c10_width::w_left_min", instance="left, min only, fill ' '", symbolic="text, split, m", bound="unwind 8", **_p),
        H("c10_width::w_left_min_witness", kind="witness", **_p),
        H("c10_width::w_right_min", instance="right, min only, fill '~'", symbolic="text, split, m", bound="unwind 8", **_p),
        H("c10_width::w_max", instance="max only", symbolic="text, split, M", bound="unwind 8", **_p),
        H("c10_width::w_left_both", instance="left, min+max, fill 'é'", symbolic="text, split, m <= M", bound="unwind 8", **_p),
        H("c10_width::w_right_both", instance="right, min+max, fill '€'", symbolic="text, split, m <= M", bound="unwind 8", **_p),
        H("c10_width::w_right_both_brace", tier="thorough", instance="right, min+max, fill '{', 3 pieces", symbolic="text, splits, m <= M", bound="unwind 8", timeout=3600, mem_gb=14, unwindset=WRITE_REC + SINK_LOOPS + BT_LOOPS),
        H("c10_width::w_max_short", tier="thorough", instance="max only, sink accepts a solver-chosen prefix per write", symbolic="text, M, short-write lengths", bound="unwind 8", timeout=3600, mem_gb=14, unwindset=WRITE_REC + SINK_LOOPS + BT_LOOPS),
        H("c10_width::w_left_both_short", tier="thorough", instance="left, min+max, short writes", symbolic="text, m <= M, short-write lengths", bound="unwind 8", timeout=3600, mem_gb=14, unwindset=WRITE_REC + SINK_LOOPS + BT_LOOPS),
        H("c10_width::w_left_both_4byte", tier="thorough", instance="left, min+max, 4-byte scalars allowed, 3 pieces", symbolic="text, splits, m <= M", bound="unwind 10", timeout=3600, mem_gb=14),
    ],
)

PROPS["C11"] = dict(
    functions=["Parser::{next,argument,formatter,name,args,arg,parameters,integer,text}", "From<Piece> for Chunk", "PatternEncoder::{new,encode}", "Chunk::encode"],
    bounds="pattern skeletons as instances with one free character: 20- and 22-digit widths with a free last digit, a small width "
           "with a free digit (encoded), an unknown formatter and an unclosed brace after a literal prefix, 'a{m}b' with the third "
           "character free over { } ( ) \\ : . < > m 9 and blank",
    outside="free pattern text beyond one character, date format directives, time zones, records other than the fixed one",
    assumptions=_pat_assumptions,
    level_text="Bounded model checking of the real parser and encoder on pattern skeletons: no reachable panic or arithmetic overflow "
               "(every such check is an obligation), encode returns, ill-formed patterns show the {ERROR: marker after the rendering of "
               "the well-formed prefix.",
    level_note="Trusted: Kani/CBMC/CaDiCaL. Kani models the dev profile (overflow checks on).",
    design_ref="DESIGN.md section 5, C11",
    harnesses=[
        H("c11_safe::width_20_digits", instance="{m:1844674407370955161<d>}", symbolic="last digit", bound="unwind 26", **_p),
        H("c11_safe::width_20_digits_witness", kind="witness", **_p),
        H("c11_safe::maxwidth_22_digits", instance="{m:.999999999999999999999<d>}", symbolic="last digit", bound="unwind 28", **_p),
        H("c11_safe::width_small_encode", instance="ab{m:><d>.3}, encoded", symbolic="the width digit", bound="unwind 12", **_p),
        H("c11_safe::date_bad_directive", tier="thorough", instance="ab{d(%Q)}, encoded (class of the fixed finding)", symbolic="-", bound="unwind 12", timeout=3600, mem_gb=14, unwindset=WRITE_REC + SINK_LOOPS + BT_LOOPS),
        H("c11_safe::unknown_formatter", instance="ab{x}cd, encoded", symbolic="-", bound="unwind 12", **_p),
        H("c11_safe::unclosed", instance="ab{m, encoded", symbolic="-", bound="unwind 12", **_p),
        H("c11_safe::width_20_digits_encode", tier="thorough", instance="ab{m:18446744073709551619}, encoded: ERROR marker after the prefix", symbolic="-", bound="unwind 28", timeout=3600, mem_gb=14, unwindset=WRITE_REC + SINK_LOOPS + BT_LOOPS),
        H("c11_safe::one_free_syntax_char", tier="thorough", instance="a<c>m}b, encoded", symbolic="c over 12 syntax characters", bound="unwind 12", timeout=3600, mem_gb=14),
    ],
)

PROPS["C09"] = dict(
    functions=["Parser (all)", "From<Piece> for Chunk", "PatternEncoder::{new,encode}", "Chunk::encode", "FormattedChunk::encode"],
    bounds="10 well-formed patterns (instances) covering every formatter and alias, doubled and backslash escapes, nesting depth 2, MDC "
           "with and without default, highlight nesting, debug/release groups, two date formats; solver variables: level, message of 0..2 "
           "units and target of 1 unit over {a, '{', '\\', é}, presence of module / file / line / MDC key",
    outside="other patterns, longer texts, the release-profile half of {D}/{R} (Kani models the dev profile; the native twin runs both), "
            "real clock / thread identity (fixed stand-ins)",
    assumptions=_pat_assumptions,
    level_text="Bounded model checking of the real parser + encoder: each pattern is given as text (parsed by the real parser) and as "
               "an abstract item list (rendered by an independent reference); output bytes and the number of style / reset calls must "
               "be equal for all records within the bounds.",
    level_note="Trusted: Kani/CBMC/CaDiCaL. The pattern is an instance parameter, not a solver variable.",
    design_ref="DESIGN.md section 5, C09",
    harnesses=[
        H("c09_pattern::pat_basic", instance="{l} {m} at {M} in {f}:{L}", symbolic="record fields", bound="unwind 12", **_p),
        H("c09_pattern::pat_basic_witness", kind="witness", **_p),
        H("c09_pattern::pat_escapes", instance="{{{m}}}(({t}))\\\\", symbolic="record fields", bound="unwind 12", **_p),
        H("c09_pattern::pat_mdc", instance="{X(k)}|{X(k)(dflt)}", symbolic="record fields, MDC presence", bound="unwind 12", **_p),
        H("c09_pattern::pat_highlight", instance="{h({l} {h({m})})}!", symbolic="record fields", bound="unwind 12", **_p),
        H("c09_pattern::pat_aliases", tier="thorough", instance="long aliases", symbolic="record fields", bound="unwind 12", timeout=3600, mem_gb=14),
        H("c09_pattern::pat_ids", tier="thorough", instance="{I}-{i}-{P}{n}", symbolic="record fields", bound="unwind 12", timeout=3600, mem_gb=14),
        H("c09_pattern::pat_nested", tier="thorough", instance="{([{({m})}])}{t}", symbolic="record fields", bound="unwind 12", timeout=3600, mem_gb=14),
        H("c09_pattern::pat_debug_release", tier="thorough", instance="{D(D{m})}{R(R{t})}", symbolic="record fields", bound="unwind 12", timeout=3600, mem_gb=14),
        H("c09_pattern::pat_date", tier="thorough", instance="{d(%Y)(utc)} {date(%Y-%m-%d)(local)} {m}", symbolic="record fields", bound="unwind 12", timeout=3600, mem_gb=14),
    ],
)

PROPS["C09U"] = dict(
    functions=["Chunk::encode", "FormattedChunk::encode (Level, Message, Module, File, Line, Target, Newline, Thread, SystemThreadId, Highlight, Debug, Release)"],
    bounds="", outside="", assumptions=[], level_text="", level_note="",
    harnesses=[
        H("c09_units::unit_record_fields", instance="one formatter chunk on the stack: level / message / module / file / line / target", symbolic="formatter kind, level, text of 0..2 units, presence of module/file/line", bound="unwind 8", **_p),
        H("c09_units::unit_record_fields_witness", kind="witness", **_p),
        H("c09_units::unit_fixed", instance="newline / thread / system thread id / empty highlight, debug, release groups", symbolic="formatter kind, level", bound="unwind 8", **_p),
        H("c09_units::unit_fixed_witness", kind="witness", **_p),
    ],
)

PROPS["C12"] = dict(
    functions=["JsonEncoder::encode_inner", "derived Serialize for Message", "ser_display", "Mdc::serialize", "serde_json compact serializer and chrono RFC 3339 formatting (executed for real)"],
    bounds="message of 1-2 units and target of 1 unit over {\", \\, LF, 0x01, a, é}; every level; module / file / line present or "
           "absent; zero or one MDC pair; fixed time stamp",
    outside="longer strings, other control characters, several MDC entries, real thread identity",
    assumptions=_pat_assumptions + ["log_mdc::iter is stubbed to yield the harness' pair"],
    level_text="Bounded model checking of the real JSON encoder against a reference serializer written from RFC 8259: the emitted "
               "line must equal the reference byte for byte, which implies one line, no raw control character, exact round trip of "
               "the strings and omission of absent fields.",
    level_note="Trusted: Kani/CBMC/CaDiCaL.",
    design_ref="DESIGN.md section 5, C12",
    harnesses=[
        H("c12_json::json_1unit", instance="message of 1 unit", symbolic="message, target, level, field presence, MDC presence", bound="unwind 12", **_p),
        H("c12_json::json_1unit_witness", kind="witness", **_p),
        H("c12_json::json_2units", tier="thorough", instance="message of 2 units", symbolic="as above", bound="unwind 12", timeout=3600, mem_gb=14),
    ],
)

PROPS["C15"] = dict(
    functions=["<Logger as Log>::{log,enabled}", "Handle::set_config", "SharedLogger::new_with_err_handler", "Logger::max_log_level", "ConfigBuilder::build"],
    bounds="(a) one logging thread x one reconfiguring thread, one swap, at any of the yield points around the snapshot load / store, or "
           "re-entrantly from inside an appender of the old configuration; configurations of two appenders and one logger; all levels; "
           "one record in flight and one after the swap. (b) the file reloader is not covered",
    outside="the automatic file reloader (serde_yaml + threads), more than one swap, more than one logging thread",
    assumptions=["E2: arc_swap::ArcSwap is replaced by a Mutex<Arc<T>> model (snapshot on load, replace on store) with yield calls "
                 "before and after every load and store; arc-swap's own atomicity is trusted",
                 "E1 containers; Backtrace::capture -> disabled; <anyhow::Error as Drop>::drop -> no-op"],
    level_text="Bounded model checking through the public API: the deliveries of a record equal the routing under the old or under "
               "the new configuration, never a mixture, for every position of the swap; a record logged after set_config returned uses "
               "only the new configuration; log::max_level() follows the swap; enabled() agrees with delivery.",
    level_note="Trusted: Kani/CBMC/CaDiCaL, E1, E2.",
    design_ref="DESIGN.md section 5, C15",
    harnesses=[
        H("c15_swap::swap_under_a", instance="target under logger a; c0 additive, c1 not", symbolic="8 levels, failing appender, swap position 0..5, record levels", bound="unwind 6", unwindset=TREE_REC(1), timeout=1800, mem_gb=12),
        H("c15_swap::swap_under_a_witness", kind="witness", unwindset=TREE_REC(1), timeout=1800, mem_gb=12),
        H("c15_swap::swap_reentrant", instance="swap triggered from inside an appender of the old configuration", symbolic="levels, which appender triggers", bound="unwind 6", unwindset=TREE_REC(1), timeout=1800, mem_gb=12),
        H("c15_swap::swap_root_target", tier="thorough", instance="target outside logger a; appenders declared in reverse order", symbolic="as above", bound="unwind 6", unwindset=TREE_REC(1), timeout=3600, mem_gb=14),
    ],
)

_e = dict(timeout=1800, mem_gb=12)
PROPS["C19"] = dict(
    functions=["append::env_util::expand_env_vars", "is_env_var_start", "is_env_var_part"],
    bounds="13 path texts (instances): simple, two references, repeated reference, dotted and non-ASCII names, unterminated, empty name, "
           "illegal first / inner character, stray '$' '{' '}', nested look-alike, plain text, a value that mentions another reference; "
           "which variables are set is the solver's choice; values are instance parameters",
    outside="free path text, the call sites in the appenders (same function, reached through build in C04/C05/C07 instances with $ENV)",
    assumptions=["E6: std::env::var answered from a table; hook verif_expand_env_vars forwards to the private function"],
    level_text="Bounded model checking of the real expansion: for every subset of set variables the result equals the reference "
               "scanner's (set references replaced by the value, everything else byte for byte unchanged).",
    level_note="Trusted: Kani/CBMC/CaDiCaL. Texts are enumerated instances.",
    design_ref="DESIGN.md section 5, C19",
    harnesses=[
        H("c19_env::env_simple", instance="/a/$ENV{A}/b", symbolic="A set or not", bound="unwind 20", **_e),
        H("c19_env::env_simple_witness", kind="witness", **_e),
        H("c19_env::env_unterminated", instance="/a/$ENV{A", symbolic="A set or not", bound="unwind 20", **_e),
        H("c19_env::env_bad_inner", instance="$ENV{A-}$ENV{A}", symbolic="A set or not", bound="unwind 20", **_e),
        H("c19_env::env_value_mentions_other", instance="$$ENV{A}$ENV{B}, A='ENV{B}', B='z' (class of the fixed finding)", symbolic="A, B set or not", bound="unwind 24", **_e),
    ] + [H("c19_env::" + n, tier="thorough", instance=n, symbolic="which variables are set", bound="unwind 20", timeout=3600, mem_gb=14)
         for n in ["env_two", "env_repeat", "env_dotted", "env_unicode_name", "env_empty_name", "env_bad_first", "env_stray", "env_nested", "env_none"]],
)

# C13: add the builder harnesses
PROPS["C13"]["_unused_builder_bounds"] = "; builder: 2-3 appenders x 2-3 loggers with one reference each; per harness ONE item (an appender name, a logger name, a logger reference or the root reference) is the solver's choice from its pool (appender names {A,B}; logger names a, a::b, b, 'a:', ''; references {A,B,Z}), the others are fixed by the instance (all items symbolic at once ran out of memory at 12 GB)"
PROPS["C13"]["outside"] = "the builder part (duplicate detection, dangling references, lossy filtering, error reporting): ConfigBuilder::build did not fit the solver's memory even for a concrete one-appender configuration - not decided by this check"
# The builder harnesses (harness/src/c13_builder.rs) are not registered: a fully concrete configuration of one
# appender and one logger through ConfigBuilder::build runs out of 12 GB in CBMC's propositional reduction (measured,
# DESIGN.md section 9.6); C13 is claimed for the name-validity half only.
# C18: add the console policy harnesses
PROPS["C18"]["functions"] += ["COLOR_MODE initialiser", "console::imp::Writer::{stdout,stderr}", "ConsoleAppenderBuilder::build"]
PROPS["C18"]["bounds"] += "; (a) NO_COLOR / CLICOLOR / CLICOLOR_FORCE each unset, '0' or '1', isatty per descriptor, target, tty_only: all combinations as solver variables"
PROPS["C18"]["outside"] = ("bytes arriving on a real terminal; (c) 'each highlighted group followed by a reset' is decided for an EMPTY highlight group at every "
                           "level (c09_units::one_highlight); highlight groups with content and nested highlights are not (their chunk list lives on the heap, DESIGN.md 9.8)")
PROPS["C18"]["assumptions"] += ["E6 environment table; E8: libc::isatty / STD*_FILENO are shadowed by a stand-in answered by the harness (foreign functions cannot be stubbed)",
                                "NO_COLOR=0 and CLICOLOR_FORCE=0 are outside the statement: the colour assertion is skipped for them"]
PROPS["C18"]["harnesses"] += [
    H("c18_console::console_policy", timeout=1800, mem_gb=12, instance="every input outside the recorded finding's class", symbolic="3 variables x {unset,0,1}, 2 isatty answers, target, tty_only", bound="unwind 16"),
    H("c18_console::console_policy_witness", kind="witness", timeout=1800, mem_gb=12),
    H("c18_console::console_policy_known", kind="finding", timeout=1800, mem_gb=12, instance="the recorded finding's class: tty_only with a colour decision that differs from terminal detection", symbolic="as above", bound="unwind 16"),
]

_f = dict(timeout=1800, mem_gb=12, unwindset=HARNESS_LOOPS + BT_LOOPS)
PROPS["C08"] = dict(
    functions=["fixed_window::rotate (door-opener FixedWindowRoller::verif_rotate: what roll() runs, before the anyhow conversion)",
               "fixed_window::move_file", "Compression::compress (None)", "append::env_util::expand_env_vars (as called by rotate)"],
    bounds="fixed-window roller with base 0 and count 1, 2, 3; every initial window state; EVERY file-system step of the rotation as "
           "the step that fails (or none) and, independently, as the point of process death (crash image taken at the guarded callback "
           "before the step); followed by one more rotation of the same roller after the failure",
    outside="the appender half (the failing append returns an error, the same or a restarted appender resumes): RollingFileAppender::append "
            "does not fit the solver (DESIGN.md 9.6) - the defect found there by the native twin is fixed; counts above 3, base > 0, the "
            "copy+remove fallback failing half way, compression",
    assumptions=[
        "E4 model file system (rename / copy / remove_file / create_dir_all), E6 environment table",
        "hook verif_hooks::rotate_step: a callback point before every file-system step of rotate(); the harness uses it to take the crash "
        "image and to make exactly that step fail with a non-NotFound error, before the step has any effect (same mechanism natively)",
        "hook FixedWindowRoller::{verif_new, verif_rotate}; <anyhow::Error as From<io::Error>>::from is cut (rotate returns io::Result)",
    ],
    level_text="Bounded model checking with the failing step and the crash point as solver variables: the failing rotation returns an "
               "error and no check fails (any reachable panic is a failed obligation); at the crash point and after the failure every "
               "file the completed rotation would retain is still on disk, whole, and oldest-to-newest reading never goes back in age; "
               "the same roller then completes a rotation and the rolled file is the newest archive.",
    level_note="Trusted: Kani/CBMC/CaDiCaL, E4. Only the roller half of C08 is decided.",
    design_ref="DESIGN.md section 5, C08 and 9.6",
    harnesses=[
        H("c08_faults::fault_roller_c1", instance="count 1 (one step: the final move)", symbolic="window state, failing step or none, crash point", bound="unwind 8", **_f),
        H("c08_faults::fault_roller_c1_witness", kind="witness", **_f),
        H("c08_faults::fault_roller_c2", instance="count 2", symbolic="window state, failing step 0..1 or none, crash point 0..1", bound="unwind 8", **_f),
        H("c08_faults::fault_roller_c3", tier="thorough", instance="count 3", symbolic="window state, failing step 0..2 or none, crash point 0..2", bound="unwind 8", timeout=3600, mem_gb=14, unwindset=HARNESS_LOOPS + BT_LOOPS),
    ],
)


# ------------------------------------------------------------------------------------------
# What is claimed.  Harness groups that the solver could not finish within the caps are kept in
# the harness crate (and below, under PENDING) for the record, but are not part of any check.
PENDING = {}
for _pid in ["C04", "C05", "C19", "C09", "C09U", "C10", "C12", "C15"]:
    PENDING[_pid] = PROPS.pop(_pid)

# C06 / C17: only the trigger units fit; the appender-level harnesses (c05_rolling::*) did not
PROPS["C06"]["harnesses"] = [h for h in PROPS["C06"]["harnesses"] if h["name"].startswith("c06_triggers::")]
PROPS["C06"]["harnesses"].append(H("c06_triggers::compound_policy", instance="CompoundPolicy::process: the trigger is consulted once, the roller runs exactly when it says so, errors are returned", symbolic="trigger answer (no/yes/error), roller failure, pre flag", bound="unwind 6", timeout=900, mem_gb=8))
PROPS["C06"]["functions"] = ["SizeTrigger::{new,trigger,is_pre_process}", "CompoundPolicy::{process,is_pre_process}", "LogFile::len_estimate"]
PROPS["C06"]["bounds"] = "trigger unit: all limits and sizes in u64; policy unit: every combination of trigger answer, roller failure and pre-processing flag"
PROPS["C06"]["outside"] = ("the appender half of the statement - that LogFile::len_estimate() equals the true on-disk size at every consultation, and the "
                           "rotation history of a running appender: RollingFileAppender::append over the file model did not fit the solver (20 min / 9-12 GB for "
                           "a single append, with the real and with a modelled BufWriter; DESIGN.md section 9.6)")
PROPS["C06"]["assumptions"] = ["hook verif_with_log_file builds a LogFile of a given length", "Backtrace::capture -> disabled; <anyhow::Error as Drop>::drop -> no-op"]
PROPS["C06"]["level_text"] = ("Bounded model checking of the decision function: for every limit and every size shown to it the size trigger asks for a roll exactly "
                              "when size > limit, and it is a post-processing trigger; the compound policy consults the trigger exactly once per append, runs the "
                              "roller exactly when asked, and returns their errors.")
PROPS["C06"]["level_note"] = "Trusted: Kani/CBMC/CaDiCaL. Only the decision half of C06 is decided; size accounting inside the appender is not (see outside)."

PROPS["C17"]["harnesses"] = [h for h in PROPS["C17"]["harnesses"] if h["name"].startswith("c06_triggers::")]
PROPS["C17"]["functions"] = ["OnStartUpTrigger::{new,trigger,is_pre_process}"]
PROPS["C17"]["bounds"] = "min_size and the sizes seen at three successive consultations: all of u64"
PROPS["C17"]["outside"] = ("the appender half (pre-existing content becomes the newest archive, first record starts a fresh file) and simultaneous first appends "
                           "from several threads: the appender did not fit the solver (DESIGN.md section 9.6); std::sync::Once is trusted")
PROPS["C17"]["assumptions"] = ["hook verif_with_log_file builds a LogFile of a given length"]
PROPS["C17"]["level_text"] = ("Bounded model checking of the trigger over all of u64: it answers true at most once in its lifetime, only at its first consultation, "
                              "and exactly when the size seen then is at least min_size; it is a pre-processing trigger.")
PROPS["C17"]["level_note"] = "Trusted: Kani/CBMC/CaDiCaL, std::sync::Once."

# C11: construction-level harnesses (measured); the encode-level ones wait for the pattern-encoder measurements
PROPS["C11"]["harnesses"] = [h for h in PROPS["C11"]["harnesses"] if h["name"].split("::")[1] in
                             ("width_20_digits", "width_20_digits_witness", "maxwidth_22_digits")]
PROPS["C11"]["bounds"] = "PatternEncoder::new on the 20- and 22-digit width skeletons ({m:18446744073709551619}, {m:.9999999999999999999999}): construction only"
PROPS["C11"]["outside"] = "encoding, every other pattern (free pattern text and even one free character did not finish), date directives (fixed finding, native twin only)"

NOT_APPLICABLE.update({
    "C04": "RollingFileAppender/FileAppender::append over a file model did not fit CBMC: a single append ran 20 min of symbolic execution and 8-12 GB with std's BufWriter and also with a small array-backed BufWriter model under the guard (heap-resident lengths, io::Error drop fan-out); no meaningful smaller unit of C04 exists (DESIGN.md 9.6)",
    "C05": "same measurement as C04: the appender's append path is out of reach; the pieces that fit are claimed elsewhere (rollers: C07, trigger/policy units: C06, C17); the stream law of C05 itself is not decided",
    "C12": "JsonEncoder::encode_inner (serde_json + chrono formatting + fmt machinery over heap buffers): a 1-unit message was still in symbolic execution after 15 min / 4 GB, and after 30 min / 5.3 GB once the sink could no longer fail (DESIGN.md 9.8 rule 20); the constant-size instance (rule 23: a one-byte message with symbolic content, level / target / optional fields / MDC fixed) ran 20 min in symbolic execution until CBMC exhausted its address space - serde_json's escape loop writes slices whose bounds depend on the content, so the copy sizes stay symbolic; no smaller unit of C12 separates from serde_json (DESIGN.md 9.6, 9.8)",
    "C15": "the public path Logger::new_with_err_handler -> Log::log -> Handle::set_config over the ArcSwap and container models: two 2-appender configurations with one logger: 30 min / 9 GB without an answer, twice; the smallest shape (two root-only configurations with one appender each, no failing appender; solver variables: two levels, the swap position, two record levels): 25 min / 6 GB without an answer - the configuration travels through Option<Config> and Arc, so the length of its (empty) logger list is not a constant for the executor and the stable sort in SharedLogger::new is explored as a phantom for every build (DESIGN.md 9.6, 9.8); the reloader half needs serde_yaml and a thread",
    "C19": "expand_env_vars builds Strings on the heap; every copy has a solver-side symbolic size: 20 s of symbolic execution, then > 12 GB in the SSA-to-SAT conversion for the 12-byte path '/a/$ENV{A}/b' (DESIGN.md 9.6); the defect found by the native twin is fixed",
})


# ---- C09 / C10: unit-level claims (second measurement round, DESIGN.md 9.8) -----------------------
# What made these fit: (1) the instance parameter that selects code (formatter kind, which widths
# exist, scalar byte lengths) is a constant of the harness, so the executor follows one arm;
# (2) the capturing sinks override write_all and never fail, so no phantom io::Error is created and
# later dropped through the `dyn Error` fan-out; (3) byte loops get bounds derived from the instance.
WRITE_ALL_LOOP = [(r"^<log4rs::.* as std::io::Write>::write_all$", "*", 3)]  # complete-writing sink: one write, at most one more that is swallowed past the limit
_u = dict(timeout=900, mem_gb=10, unwindset=WRITE_REC + SINK_LOOPS + BT_LOOPS)
_f = dict(timeout=1800, mem_gb=12, unwindset=[(r"^<c10_width::Sink as std::io::Write>::write", "*", 5)] + WRITE_REC + SINK_LOOPS + BT_LOOPS + WRITE_ALL_LOOP)
_ft = dict(_f, tier="thorough", timeout=5400, mem_gb=16)
_fs = dict(_f, unwindset=[(r"^<c10_width::Sink as std::io::Write>::write", "*", 5)] + WRITE_REC + SINK_LOOPS + BT_LOOPS)  # short writes: write_all loops up to the piece length
_s = dict(timeout=900, mem_gb=10)

_one = [("level", "{l}: the level's name"), ("message", "{m}: the message arguments"), ("module", "{M}: module path or ???"),
        ("file", "{f}: file or ???"), ("line", "{L}: line or ???"), ("target", "{t}: the target"), ("newline", "{n}"),
        ("thread", "{T}: thread name (constant stand-in under the guard)"), ("tid", "{i}: system thread id (constant stand-in)"),
        ("highlight", "{h()}: one style call before and one reset after for Error/Warn/Info/Trace, none for Debug; no text"),
        ("debug", "{D()}: empty group"), ("release", "{R()}: empty group"),
        ("thread_id", "{I}: thread_id::get() (stub: 7) in decimal"), ("process_id", "{P}: process::id() (stub: 4242) in decimal")]
PROPS["C09"] = dict(
    functions=["FormattedChunk::encode - arms Level, Message, Module, File, Line, Target, Newline, Thread, SystemThreadId, Highlight, Debug, Release, ThreadId, ProcessId",
               "the default io::Write::{write_fmt, write_all} and the core::fmt machinery they drive (executed for real)"],
    bounds="one formatter per harness (the formatter is an instance parameter); solver variables: record level (5), message and target "
           "text of 0..2 units over {a, '{', '\\', e-acute} (0-4 bytes), presence of module path / file / line; the line number over 0..65535 (all of u32 did not finish: 32-bit division circuits on both sides); unwind 8 (line: 12)",
    outside="EVERYTHING that makes a pattern out of formatters is outside this claim: the parser (text, escapes, arguments, nesting), the "
            "Piece -> Chunk table (names, aliases, arity checks), the in-order loop of PatternEncoder::encode over its heap-stored chunk "
            "list, group nesting with content, and the date and MDC formatters (one_mdc - two heap strings and the fmt machinery - exhausted 10 GB); process id and thread id are decided only as 'writes what its source returns' (their sources are stubs). The "
            "whole-pattern harnesses (c09_pattern::pat_*) are kept in the harness crate and run natively, but did not fit the solver: "
            "the chunk list lives on the heap and the enum tags are read through unions, so every element explores every formatter "
            "(DESIGN.md 9.6, 9.8). Also outside: longer texts, other scalars, line numbers above 65535.",
    assumptions=_pat_assumptions + ["hook verif_formatter_direct builds one FormattedChunk on the stack and runs the real FormattedChunk::encode on it",
                                    "the sink's write_all is overridden (takes everything, never fails); the default write_fmt is the real one"],
    level_text="Bounded model checking of each record-field formatter of the real FormattedChunk::encode: for every level, every text "
               "within the bounds and every presence pattern of the optional fields, the bytes written equal the formatter's documented "
               "value (??? for absent module / file / line) and the highlight formatter issues exactly the documented style calls.",
    level_note="Trusted: Kani/CBMC/CaDiCaL. PARTIAL: decides 'each formatter's value for the record' only; 'in-order concatenation over a "
               "whole pattern' is not decided by any solver run (see outside).",
    design_ref="DESIGN.md section 5 (C09) and 9.8",
    harnesses=[H("c09_units::one_%s" % k, instance=txt, symbolic="level, message/target text, presence of optional fields", bound="unwind 8", **_u) for k, txt in _one]
              + [H("c09_units::one_level_witness", kind="witness", **_u), H("c09_units::one_highlight_witness", kind="witness", **_u)],
)

PROPS["C10"] = dict(
    functions=["MaxWidthWriter::write", "LeftAlignWriter::{write,finish}", "RightAlignWriter::{write,set_style,finish}", "is_char_boundary", "char_starts",
               "the default io::Write::{write_all, write_fmt} over these writers (executed for real)", "Parser::{parameters, integer, consume}",
               ],
    bounds="writers: text of 2 or 3 scalars whose byte lengths (1-3) and piece boundaries are instance parameters; solver variables: every "
           "byte of every scalar (any lead / continuation byte of its length class), m or M in 0..5; fills ' ' and '~'; both alignments; "
           "min only / max only. Spec parser: ':' + 5 (thorough: 7) free bytes over {< > . 0 1 9 * } x :} + '}', "
           "also behind a 2-, 3- or 4-byte fill character",
    outside="BOTH widths at once (LeftAlignWriter / RightAlignWriter over MaxWidthWriter): even one scalar with m <= M < 4 exhausted 12 GB after 15 min, also with Chunk::encode out of static reach "
            "(every padding character goes through the real write_fmt of the inner MaxWidthWriter, whose phantom WriteZero errors are dropped through "
            "the dyn-Error fan-out; DESIGN.md 9.8) - that composition is exercised by the native twins only; nested width specs (the law "
            "'composes through nested groups'), 4-byte scalars and combining marks in the text, texts of more than "
            "3 scalars, widths above 5, m > M, other write splittings than the instance's, the sink accepting short writes (one thorough "
            "instance only). f_* instances feed the writer composition through the hook verif_width_writers, which builds the same six "
            "compositions as Chunk::encode; Chunk::encode's own selection of the composition did not fit (g_* instances, rule 19 of DESIGN.md 9.8) and is exercised by the native twins only",
    assumptions=["hook verif_width_writers composes MaxWidthWriter / LeftAlignWriter / RightAlignWriter exactly as the six arms of Chunk::encode do and feeds it one write_all per piece",
                 "hook verif_parse_parameters runs the private Parser::parameters on a spec text",
                 "the sink records bytes, never fails; its write_all is overridden (no phantom WriteZero error)",
                 "Backtrace::capture -> disabled; <anyhow::Error as Drop>::drop -> no-op"],
    level_text="Bounded model checking of the real width / alignment writers and of the spec parser: for every byte content, m and M within "
               "the bounds the bytes that reach the sink equal 'the first M scalars, then padded with the fill to m scalars on the chosen "
               "side' byte for byte (hence valid UTF-8, at most M characters, no scalar split); and for every spec text within the bounds "
               "Parser::parameters yields exactly the fill, alignment and widths the documented grammar assigns and stops where it says.",
    level_note="Trusted: Kani/CBMC/CaDiCaL. Scalar byte lengths and piece boundaries are enumerated instances, not solver variables.",
    design_ref="DESIGN.md section 5 (C10) and 9.8",
    harnesses=[
        H("c10_spec::spec_free5", instance="':' + 5 free bytes + '}'", symbolic="5 bytes over {< > . 0 1 9 * } x :}", bound="unwind 10", **_s),
        H("c10_spec::spec_free5_witness", kind="witness", **_s),
        H("c10_spec::spec_fill2_free4", instance="':' + e-acute + 4 free bytes + '}'", symbolic="4 bytes over the alphabet", bound="unwind 10", **_s),
        H("c10_spec::spec_fill3_free4", tier="thorough", instance="':' + euro sign + 4 free bytes + '}'", symbolic="4 bytes", bound="unwind 10", **_s),
        H("c10_spec::spec_fill4_free3", tier="thorough", instance="':' + U+1F600 + 3 free bytes + '}'", symbolic="3 bytes", bound="unwind 10", **_s),
        H("c10_spec::spec_free7", tier="thorough", instance="':' + 7 free bytes + '}'", symbolic="7 bytes", bound="unwind 12", timeout=3600, mem_gb=14),
        H("c10_width::f_max_21", instance="MaxWidthWriter; scalars of 2,1 bytes; pieces 1|1|0", symbolic="bytes, M", bound="unwind 5", **_f),
        H("c10_width::f_max_21_witness", kind="witness", **_f),
        H("c10_width::f_left_min_12", instance="LeftAlignWriter, fill ' '; scalars 1,2; pieces 1|1|0", symbolic="bytes, m", bound="unwind 5", **_f),
        H("c10_width::f_right_min_21", instance="RightAlignWriter, fill '~'; scalars 2,1; pieces 0|1|1", symbolic="bytes, m", bound="unwind 5", **_f),
        H("c10_width::f_max_123", instance="MaxWidthWriter; scalars 1,2,3; pieces 1|1|1", symbolic="bytes, M", bound="unwind 5", **_f),
        H("c10_width::f_max_321", instance="MaxWidthWriter; scalars 3,2,1; pieces 1|1|1", symbolic="bytes, M", bound="unwind 5", **_ft),
        H("c10_width::f_left_min_213", instance="LeftAlignWriter, fill e-acute; scalars 2,1,3; pieces 1|2|0", symbolic="bytes, m", bound="unwind 5", **_ft),
        H("c10_width::f_max_short_21", instance="MaxWidthWriter over a sink that accepts a solver-chosen prefix of every write; scalars 2,1 in one piece", symbolic="bytes, M, accepted lengths", bound="unwind 5", **_fs),
    ],
)

# C18 (c): the highlight formatter's style / reset pairing (same harness as C09's one_highlight)
PROPS["C18"]["functions"] += ["FormattedChunk::encode (Highlight arm)"]
PROPS["C18"]["bounds"] += "; (c) an empty {h()} group at every record level"
PROPS["C18"]["harnesses"].append(H("c09_units::one_highlight", instance="{h()}: exactly one style call before and one reset after for Error / Warn / Info / Trace, none for Debug", symbolic="record level", bound="unwind 8", **_u))


_vv = dict(timeout=900, mem_gb=8, unwindset=[(r"^c19_value::body$", "*", 70)])
_c19 = [("simple3", "/a/$ENV{A}/b, A set, value of 3 bytes", "quick"), ("empty", "the same, empty value", "quick"), ("unset", "the same, A unset", "quick"),
        ("twice3", "$ENV{A}-$ENV{A}", "quick"), ("tricky_both_set", "x$$ENV{A}$ENV{B}y, both set, A's value of 6 bytes (can spell ENV{B} behind the '$')", "quick"),
        ("tricky_b_unset", "the same, B unset", "quick"), ("tricky_a_unset", "the same, A unset, B's value of 4 bytes", "quick"),
        ("dotted_name", "/$ENV{A.b_1}.log", "quick"), ("unicode_name", "/$ENV{e-acute}.log", "quick"), ("unterminated", "/a/$ENV{A (A set)", "quick"),
        ("empty_name", "$ENV{}$ENV{A}", "quick"), ("bad_first", "$ENV{-A}$ENV{.A}$ENV{A}", "quick"), ("bad_inner", "$ENV{A-}$ENV{A}", "quick"),
        ("stray", "$${}}$ENV${A}$ENV{A}$", "quick"),
        ("lead_empty", "$ENV{A}/b with A set to the empty string (a reference at the very start)", "quick"), ("lead3", "$ENV{A}/b, value of 3 bytes", "quick"),
        ("lead_empty_twice_then_unset", "$ENV{A}$ENV{A}x/$ENV{B}, A empty, B unset", "quick"), ("only_empty", "$ENV{A} alone, A empty: the result is the empty string", "quick"), ("nested", "$ENV{$ENV{A}}, A set", "quick"), ("nested_unset", "$ENV{$ENV{A}}, A unset", "quick")]
PROPS["C19"] = dict(
    functions=["append::env_util::expand_env_vars", "is_env_var_start", "is_env_var_part", "str::match_indices (two-way searcher), String::push_str (executed for real)"],
    bounds="20 path texts (instances) with one or two references: plain, repeated, adjacent references behind a stray '$', dotted / non-ASCII names, "
           "unterminated, empty name, illegal first / inner character, stray syntax characters, nested look-alike; which variables are set and the "
           "LENGTH of each value (0-6 bytes) are instance parameters; solver variables: every byte of every value over {$ E N V { } B z}",
    outside="free path text and free variable names (the searcher over symbolic text did not fit), values longer than 6 bytes or with other bytes, "
            "more than two references, the call sites in the appenders (the same function, reached from rotate() in the C07 instances with $ENV)",
    assumptions=["E6: std::env::var is answered from a harness table (name -> set / unset, value bytes)",
                 "hook verif_expand_env_vars forwards to the private function",
                 "Unicode classification of non-ASCII scalars (core::unicode::unicode_data::{alphabetic,n}::lookup) is replaced by the answer for U+00E9, the only non-ASCII scalar of the instances",
                 "all copies have constant sizes by construction of the instances (DESIGN.md 9.8, rule 23)"],
    level_text="Bounded model checking of the real expansion: for every instance and every content of the values the result equals 'each reference to "
               "a set variable replaced by exactly its value, in one pass, everything else byte for byte unchanged' - in particular a value that "
               "spells a reference (or completes one with the surrounding text) is not expanded again, and unset variables stay as written.",
    level_note="Trusted: Kani/CBMC/CaDiCaL. Path texts, set / unset and value lengths are enumerated instances, not solver variables.",
    design_ref="DESIGN.md section 5 (C19) and 9.8",
    harnesses=[H("c19_value::value_%s" % k, tier=t, instance=txt, symbolic="value bytes", bound="unwind 20-30; harness loops 70", **_vv) for k, txt, t in _c19]
              + [H("c19_value::value_simple3_witness", kind="witness", **_vv)],
)
NOT_APPLICABLE.pop("C19", None)
_c04 = [("3_pre2", "one append of 3 bytes (one write_all) over 2 pre-existing bytes", "quick"),
        ("2_0_1_pre0", "appends of 2, 0 and 1 bytes, two write_all calls per record where possible, no content before", "quick"),
        ("0_pre0", "one empty record", "quick"),
        ("4_4_pre3", "appends of 4 and 4 bytes in two chunks over 3 pre-existing bytes", "thorough"),
        ("1_1_1_1_pre1", "four appends of 1 byte over 1 pre-existing byte", "thorough")]
PROPS["C04"] = dict(
    functions=["FileAppenderBuilder::build", "<FileAppender as Append>::append", "SimpleWriter", "std::io::BufWriter<File> (std, executed for real)"],
    bounds="histories of 1-4 successive appends; the number of appends, every record's length (0-4 bytes), its split into one or two write_all "
           "calls and the amount of pre-existing content (0-3 bytes) are instance parameters (so that every copy has a constant size, DESIGN.md "
           "9.8 rule 23); solver variables: the open mode (append / truncate), existence of an empty file, every record's content byte; "
           "content observed after every single append",
    outside="record lengths as solver variables (measured: 20 min / 12 GB for one append, DESIGN.md 9.6); real thread parallelism - 'not "
            "interleaved' is not decided (Kani has no threads; the writer is confined to the mutex, see assumptions); records larger than the "
            "1 KiB buffer; short writes of the OS; write errors",
    assumptions=_fs_assumptions,
    level_text="Bounded model checking of the real file appender: for every instance, both open modes and all record contents, after every "
               "append the model disk's bytes at the path equal (old content if append mode) ++ record_1 .. record_i exactly - so a dropped "
               "flush, a swapped append/truncate flag or a flush before the encode shows as a byte mismatch.",
    level_note="Trusted: Kani/CBMC/CaDiCaL and the environment models E3/E4. Record lengths and counts are enumerated instances. Interleavings are not explored.",
    design_ref="DESIGN.md section 5 (C04) and 9.8",
    harnesses=[H("c04_file::sized_%s" % k, tier=t, instance=txt, symbolic="open mode, existence, record content", bound="unwind 10", **_a) for k, txt, t in _c04]
              + [H("c04_file::sized_3_pre2_witness", kind="witness", **_a)],
)
NOT_APPLICABLE.pop("C04", None)

_c05 = [("sized_plan_post_2", "one append of 2 bytes over 1 pre-existing byte", "the roll decision, open mode", "quick"),
        ("pfx_post_2x1_keep", "appends of 2 and 1 bytes over 1 pre-existing byte; first decision: keep", "the last roll decision, open mode", "quick"),
        ("pfx_post_2x1_roll", "the same; first decision: roll", "the last roll decision, open mode", "quick"),
        ("pfx_post_1x0x2_roll_keep", "appends of 1, 0 and 2 bytes over 2 pre-existing bytes; decisions roll, keep, then symbolic", "the last roll decision, open mode", "quick"),
        ("pfx_post_1x0x2_keep_keep", "the same; decisions keep, keep, then symbolic", "the last roll decision, open mode", "thorough"),
        ("pfx_post_2x2x2_roll_roll", "three appends of 2 bytes, no content before; decisions roll, roll, then symbolic", "the last roll decision, open mode", "thorough"),
        ("pfx_post_3x0_roll", "appends of 3 and 0 bytes over 2 pre-existing bytes; first decision: roll", "the last roll decision, open mode", "thorough")]
PROPS["C05"] = dict(
    functions=["RollingFileAppenderBuilder::build", "<RollingFileAppender as Append>::append", "RollingFileAppender::get_writer",
               "LogWriter::{write,flush}", "LogFile::{roll,len_estimate}", "std::io::BufWriter<File> (std, executed for real)",
               "CompoundPolicy::{process,is_pre_process} (unit harness c06_triggers::compound_policy)"],
    bounds="POST-processing policy only. Histories of 1-3 appends whose record lengths (0-3 bytes), pre-existing content (0-2 bytes) and all roll "
           "decisions but the last are instance parameters (constant copy sizes and a concrete reachable appender state before the last append, "
           "DESIGN.md 9.8 rule 23); solver variables: the last roll decision and the open mode; one archive name (the roller is abstract here: "
           "rename to the archive; the real rollers are decided in C07). CompoundPolicy unit: every trigger answer / roller failure / pre flag",
    outside="PRE-processing policies (roll before the write; two appends exhaust 12 GB, DESIGN.md 9.8), every roll decision symbolic at once (two "
            "appends: 12 GB), record lengths as solver variables, a restart of the appender, compression, background rotation, real thread "
            "parallelism, records larger than the 1 KiB buffer; composition with the real roller in one harness",
    assumptions=_fs_assumptions + ["the harness Policy performs the roll by renaming the active file to the archive name after calling "
                                   "the real LogFile::roll (the documented Roll contract), and compares LogFile::len_estimate() with the true size of the active file"],
    level_text="Bounded model checking of the real rolling appender against a stream model: after every append the active file and the "
               "archive must hold exactly the bytes the record stream prescribes (whole records, in write order, none twice, none missing), the "
               "policy is consulted exactly once per append and is shown the true size - for both values of the last roll decision and "
               "both open modes, from every appender state the instances' decision prefixes reach.",
    level_note="Trusted: Kani/CBMC/CaDiCaL, E3/E4. Assume-guarantee split at the Roll trait: appender here, rollers in C07. Histories, lengths and all "
               "decisions but the last are enumerated instances.",
    design_ref="DESIGN.md section 5 (C05) and 9.8",
    harnesses=[H("c05_rolling::%s" % k, tier=t, instance=txt, symbolic=sy, bound="unwind 10", **_a) for k, txt, sy, t in _c05]
              + [H("c05_rolling::pfx_post_2x1_keep_witness", kind="witness", **_a),
                 H("c06_triggers::compound_policy", instance="CompoundPolicy::process with harness trigger/roller", symbolic="trigger answer (no/yes/error), roller failure, pre flag", bound="unwind 6", timeout=900, mem_gb=8)],
)
NOT_APPLICABLE.pop("C05", None)

# C06, appender half (post-processing, one append): the real SizeTrigger behind the harness policy sees the true size
PROPS["C06"]["harnesses"] += [
    H("c05_rolling::sized_size_2", instance="RollingFileAppender with the real SizeTrigger: one append of 2 bytes over 1 pre-existing byte", symbolic="limit 0..6, open mode", bound="unwind 10", **_a),
    H("c05_rolling::sized_size_3_pre2", instance="the same: 3 bytes over 2 pre-existing bytes", symbolic="limit 0..6, open mode", bound="unwind 10", **_a),
]
PROPS["C06"]["functions"] += ["RollingFileAppender::{append,get_writer}, LogWriter, LogFile::{roll,len_estimate} with the real SizeTrigger behind the harness policy (one post-processing append)"]
PROPS["C06"]["bounds"] += ("; appender half: one append of a record of instance-given length (2 or 3 bytes) over instance-given pre-existing content (1 or 2 bytes), "
                           "limit 0..6 and the open mode symbolic: the size shown to the trigger equals the true on-disk size, the roll happens exactly when size > limit, "
                           "and the files hold the record stream")
PROPS["C06"]["outside"] = ("size accounting over histories of several appends with a symbolic limit (the roll decisions then become symbolic: two appends exhaust 12 GB, "
                           "DESIGN.md 9.8) - C05's instances check the size shown to the policy along concrete decision prefixes; record lengths as solver variables; "
                           "the real roller behind the real trigger in one harness (C07 decides the rollers)")
PROPS["C06"]["assumptions"] += _fs_assumptions
PROPS["C06"]["level_note"] = "Trusted: Kani/CBMC/CaDiCaL, E3/E4 for the appender instances."


# C11: the width parser on free digit strings (Parser::integer through Parser::parameters)
PROPS["C11"]["functions"] = list(PROPS["C11"]["functions"]) + ["Parser::{parameters, integer} on digit strings (hook verif_parse_parameters)"]
PROPS["C11"]["bounds"] += "; Parser::parameters on ':' + digits + '}': the 1000 strings around 2^64 - 1 (quick) and every digit string of length 20 and 21 (thorough)"
PROPS["C11"]["harnesses"] = PROPS["C11"]["harnesses"] + [
    H("c10_spec::digits_boundary3", instance="':18446744073709551' + 3 free digits + '}': across 2^64 - 1", symbolic="3 digits", bound="unwind 24", timeout=1500, mem_gb=10),
    H("c10_spec::digits_boundary3_witness", kind="witness", timeout=1500, mem_gb=10),
    H("c10_spec::digits20", tier="thorough", instance="':' + 20 free digits + '}'", symbolic="20 digits", bound="unwind 24", timeout=1500, mem_gb=10),
    H("c10_spec::digits21", tier="thorough", instance="':' + 21 free digits + '}' (never fits)", symbolic="21 digits", bound="unwind 24", timeout=1500, mem_gb=10),
]
PROPS["C11"]["functions"] = ["PatternEncoder::new (Parser + From<Piece> for Chunk) on the two width skeletons", "Parser::{parameters, integer, consume} on digit strings (hook verif_parse_parameters)"]
PROPS["C11"]["level_text"] = ("Bounded model checking of the real width parsing: constructing an encoder from the 20- / 22-digit width skeletons does not panic or overflow "
                              "(every arithmetic and bounds check of the compiled code is an obligation), and for every digit string within the bounds "
                              "Parser::parameters returns exactly the value when it fits usize and an error otherwise.")
PROPS["C11"]["level_note"] = ("Trusted: Kani/CBMC/CaDiCaL. Kani models the dev profile (overflow checks on). PARTIAL: only 'absurd widths' of the statement is decided; "
                              "totality of the parser on arbitrary strings and the {ERROR: ...} rendering are not (the parser on 3 free bytes ran 30 min without an answer, DESIGN.md 9.8).")
# C11: Parser::parameters is total on spec texts (the same harnesses as C10's spec half): any panic inside it is a failed obligation
PROPS["C11"]["harnesses"] = PROPS["C11"]["harnesses"] + [
    H("c10_spec::spec_free5", instance="':' + 5 free bytes over {< > . 0 1 9 * } x :} + '}': no panic, and the documented meaning", symbolic="5 bytes", bound="unwind 10", **_s),
    H("c10_spec::spec_fill2_free4", instance="':' + e-acute + 4 free bytes + '}' (a multi-byte character right after the ':')", symbolic="4 bytes", bound="unwind 10", **_s),
]
PROPS["C11"]["bounds"] += "; Parser::parameters on every spec text of 5 free bytes over the spec alphabet, also behind a 2-byte character"

# C08 at the appender level: a rotation that fails after LogFile::roll() leaves the file in place; the appender must keep
# every acknowledged record when it re-opens the file (the defect fixed in 60c1b22).  The failure is not REPORTED by the
# harness policy (that would construct an anyhow error, which does not fit); for the appender the state is the same.
PROPS["C08"]["functions"] = list(PROPS["C08"]["functions"]) + ["RollingFileAppender::{append,get_writer}, LogFile::roll after a rotation that left the active file in place"]
PROPS["C08"]["bounds"] += ("; appender level: post-processing policy, appends of instance-given lengths (2,1 and 1,2,1 bytes) over 1 or 0 pre-existing bytes, the first roll fails after "
                           "LogFile::roll() (file left in place), the last roll decision and the open mode (append / truncate) symbolic")
PROPS["C08"]["harnesses"] = PROPS["C08"]["harnesses"] + [
    H("c05_rolling::failed_roll_2x1", instance="append 2 bytes, roll fails leaving the file; append 1 byte", symbolic="open mode, the last roll decision", bound="unwind 10", **_a),
    H("c05_rolling::failed_roll_2x1_witness", kind="witness", **_a),
    H("c05_rolling::failed_roll_1x2x1", tier="thorough", instance="append 1 byte, roll fails leaving the file; append 2 bytes (kept); append 1 byte", symbolic="open mode, the last roll decision", bound="unwind 10", **_a),
]
PROPS["C08"]["assumptions"] = list(PROPS["C08"]["assumptions"]) + _fs_assumptions
PROPS["C08"]["outside"] = ("at the appender level: that the failing append RETURNS an error (the harness policy leaves the file in place without reporting it: constructing "
                           "the anyhow error exhausts 14 GB, DESIGN.md 9.8), a restarted appender, pre-processing policies; at the roller level: counts above 3, base > 0, the "
                           "copy+remove fallback failing half way, compression, the background thread")

# c11_date::* ({d(%x)} with a symbolic directive letter through From<Piece> for Chunk and chrono's StrftimeItems): 25 min
# without an answer (two-way searchers over the heap-built format string) - not registered; the module and its hook stay.
PROPS["C08"]["level_text"] += (" At the appender level: after a rotation that closed the writer but left the active file in place, the next appends keep "
                               "every acknowledged record in both open modes (the file content equals the record stream after every append).")
PROPS["C08"]["level_note"] = ("Trusted: Kani/CBMC/CaDiCaL, E3/E4. Roller level: failing step and crash point symbolic. Appender level: the failed roll is an instance "
                              "(the harness policy does not report it), the last roll decision and the open mode are symbolic.")
